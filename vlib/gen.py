"""Hypothesis generators: type programs (descriptors), JSON data for a type (valid by
construction, mutants, atoms, random), typed values.

Well-formedness is by construction (unique names program-wide, defaults are values of the
field type, flattened fields are fresh non-recursive classes, set elements hashable, string
keys, ...), not by rejection.  Every random choice goes through `draw`.
"""
from __future__ import annotations

import copy
from typing import Any, Dict, List, Optional

from hypothesis import strategies as st

from vlib import build
from vlib import model as M

PATTERNS = {
    "^a": ["a", "ab", "abc", "aaaa"],
    "^[ab]+$": ["a", "b", "ab", "bab", "aabb"],
    "^\\d+$": ["0", "12", "345", "6789"],
    "^x_": ["x_", "x_a", "x_bc", "x_def"],
    "^.b": ["ab", "bb", "abc", "xbcd"],
}
NEAR_MISS = {"^a": ["", "b", "ba"], "^[ab]+$": ["", "c", "abc"], "^\\d+$": ["", "a", "1a"],
             "^x_": ["", "x", "ax_"], "^.b": ["", "a", "b", "ba"]}
PROP_PATTERNS = ["^x_", "^y\\d"]
PROP_KEYS = {"^x_": ["x_a", "x_b", "x_"], "^y\\d": ["y1", "y22", "y0z"]}
EXTRA_KEYS = ["zz", "zz1", "Q"]
STRS = ["", "a", "b", "ab", "abc", "0", "12", "x_a", "true", "1", "é"]
INTS = [0, 1, 2, 3, -1, 5, 10, -7]  # (13 is the value refused by the not13 leaf validator: only in ATOMS)
FLOATS = [0.5, 1.5, -0.25, 2.0, 0.0, 3.75, 1.0]
LETTERS = "abcdefgh"

DEFAULT_CFG = dict(max_depth=3, max_fields=4, max_alts=3, classes=True, aggregates=True,
                   constraints=True, recursion=True, generics=False, typeddict=True,
                   namedtuple=True, initvar=True, skip=True, dep_req=True, class_aliaser=True,
                   unsup=True, any=True, undefined=True, enums=True, fall_back=True, explicit_unique=True, lit_in_union=True,
                   kinds=None, leaf_kinds=None, alias_pool=None, flavors=None, str_literals=False, enum_bases=None, agg_maps=True, init_false=True, min_fields=0, required_md=True, conforming_defaults=False)


def pick(draw, xs):
    return draw(st.sampled_from(list(xs)))


def chance(draw, p: float) -> bool:
    return draw(st.integers(0, 999)) < int(p * 1000)


# ---------------------------------------------------------------------------------------
# type programs
# ---------------------------------------------------------------------------------------

class TypeGen:
    def __init__(self, draw, cfg: Optional[dict] = None):
        self.draw = draw
        self.cfg = dict(DEFAULT_CFG, **(cfg or {}))
        self.prog: Dict[str, Any] = {"future": True, "enums": [], "newtypes": [], "classes": []}
        self.n = 0
        self.stack: List[int] = []
        self.flattened: set = set()  # classes used as a flattened field (never reused)
        self.generic_idx: set = set()  # generic classes (never referenced without arguments)

    def uid(self) -> int:
        self.n += 1
        return self.n

    # -- constraints -----------------------------------------------------------------
    def constraints(self, kind: str) -> Optional[dict]:
        d = self.draw
        c: Dict[str, Any] = {}
        if kind in ("int", "float"):
            lo = d(st.integers(-2, 2))
            hi = lo + d(st.integers(0, 4))
            if chance(d, 0.5):
                c["min"] = lo
                if chance(d, 0.2):  # inclusive and exclusive bound together (either may be the binding one, or a tie)
                    c["exc_min"] = lo + pick(d, [0, 0, -2, -1, 1])
            elif chance(d, 0.3):
                c["exc_min"] = lo - 1
            if chance(d, 0.5):
                c["max"] = hi
                if chance(d, 0.2):
                    c["exc_max"] = hi + pick(d, [0, 0, -1, 1, 2])
            elif chance(d, 0.3):
                c["exc_max"] = hi + 1
            if chance(d, 0.2):
                c["mult_of"] = pick(d, [2, 3] + ([0.5, 1.5] if self.cfg.get("float_mult_of") else []))
        elif kind == "str":
            lo = d(st.integers(0, 2))
            if chance(d, 0.4):
                c["min_len"] = lo
            if chance(d, 0.4):
                c["max_len"] = lo + d(st.integers(0, 3))
            if chance(d, 0.4):
                c["pattern"] = pick(d, list(PATTERNS))
        elif kind == "array":
            lo = d(st.integers(0, 2))
            if chance(d, 0.5):
                c["min_items"] = lo
            if chance(d, 0.5):
                c["max_items"] = lo + d(st.integers(0, 2))
            if self.cfg["explicit_unique"] and chance(d, 0.25):
                c["unique"] = True
        elif kind == "object":
            lo = d(st.integers(0, 2))
            if chance(d, 0.5):
                c["min_props"] = lo
            if chance(d, 0.5):
                c["max_props"] = lo + d(st.integers(0, 2))
        return c or None

    # -- leaves ------------------------------------------------------------------------
    def enum(self) -> dict:
        d = self.draw
        base = pick(d, self.cfg["enum_bases"] or ["plain", "plain", "int", "str"])
        n = d(st.integers(1, 3))
        if base == "int" or (base == "plain" and chance(d, 0.5)):
            vals = d(st.lists(st.sampled_from([0, 1, 2, 3, -1]), min_size=n, max_size=n, unique=True))
        else:
            vals = d(st.lists(st.sampled_from(["a", "b", "ab", "", "x"]), min_size=n, max_size=n, unique=True))
        e = {"name": f"E{self.uid()}", "base": base, "members": [[f"M{i}", v] for i, v in enumerate(vals)]}
        self.prog["enums"].append(e)
        return {"k": "enum", "i": len(self.prog["enums"]) - 1}

    def literal(self) -> dict:
        d = self.draw
        pool = [0, 1, 2, -1, "a", "b", "", "ab"]
        n = d(st.integers(1, 3))
        vals: List[Any] = d(st.lists(st.sampled_from(pool), min_size=n, max_size=n, unique=True))
        if chance(d, 0.15):
            bv = pick(d, [True, False])  # (True == 1 and False == 0 in Python: only the equal integer is dropped)
            vals = [v for v in vals if isinstance(v, str) or v != bv] + [bv]
        if self.cfg["enums"] and self.prog["enums"] and chance(d, 0.15):
            i = d(st.integers(0, len(self.prog["enums"]) - 1))
            e = self.prog["enums"][i]
            m, mv = pick(d, e["members"])
            if not any(v == mv for v in vals):
                vals.append({"enum": [i, m]})
        return {"k": "lit", "values": vals}

    def newtype(self, hashable=False) -> dict:
        d = self.draw
        base = pick(d, ["str", "int", "float", "bool", "str", "int"])
        nt = {"name": f"N{self.uid()}", "of": {"k": base}, "c": None}
        if self.cfg["constraints"] and base != "bool" and chance(d, 0.5):
            nt["c"] = self.constraints(base)
        self.prog["newtypes"].append(nt)
        return {"k": "newtype", "i": len(self.prog["newtypes"]) - 1}

    def leaf(self, hashable=False) -> dict:
        d = self.draw
        kinds = ["str"] * 4 + ["int"] * 4 + ["float"] * 3 + ["bool"] * 2 + ["lit"] * 2 + ["newtype"] * 2
        kinds += ["annprim"] * 3 if self.cfg["constraints"] else []
        kinds += ["enum"] * 2 if self.cfg["enums"] else []
        kinds += ["std"] * 3 if self.cfg.get("std") else []
        if not hashable:
            kinds += ["none"]
            kinds += ["any"] if self.cfg["any"] else []
        elif self.cfg.get("any_in_sets") and self.cfg["any"]:
            kinds += ["any"]  # Set[Any]: supported type, whose JSON elements may be unhashable (opt-in: C03)
        if self.cfg["leaf_kinds"]:
            kinds = [x for x in kinds if x in self.cfg["leaf_kinds"]] or ["int"]
        k = pick(d, kinds)
        if k == "lit":
            if self.cfg["str_literals"]:
                n = d(st.integers(1, 3))
                return {"k": "lit", "values": d(st.lists(st.sampled_from(["a", "b", "ab", "x"]), min_size=n, max_size=n, unique=True))}
            return self.literal()
        if k == "enum":
            if self.prog["enums"] and chance(d, 0.3):
                return {"k": "enum", "i": d(st.integers(0, len(self.prog["enums"]) - 1))}
            return self.enum()
        if k == "newtype":
            if self.prog["newtypes"] and chance(d, 0.3):
                return {"k": "newtype", "i": d(st.integers(0, len(self.prog["newtypes"]) - 1))}
            return self.newtype()
        if k == "std":
            # "amount" (the only kind whose source is a union of JSON types: schema {"type": [...]}) is drawn three times as often
            t_ = {"k": "std", "t": pick(d, sorted(x for x in STD_VALID if x != "ver" or self.cfg.get("std_multi")) + ["amount", "amount"])}
            if self.cfg["constraints"] and t_["t"] not in ("ver", "amount") and chance(d, 0.25):
                # constraints given from outside the converted type: they apply to its source datum (string / number)
                c = self.constraints("float" if t_["t"] == "decimal" else "str")
                if c:
                    c.pop("pattern", None)
                    c.pop("mult_of", None)
                if c:
                    return {"k": "ann", "of": t_, "c": c}
            return t_
        if k == "annprim":
            base = pick(d, ["str", "int", "float"])
            c = self.constraints(base)
            if c and self.cfg.get("stacked_constraints", True) and chance(d, 0.3):
                # the same keywords declared at two levels (json_schema.md: "constraints are merged"): Annotated over a
                # constrained NewType or over another Annotated; patterns / multipleOf are not stacked (no merge defined)
                c2 = self.constraints(base)
                if c2:
                    for kw in ("pattern", "mult_of"):
                        if kw in c:
                            c2.pop(kw, None)
                if c2:
                    if chance(d, 0.5):
                        nt = {"name": f"N{self.uid()}", "of": {"k": base}, "c": c}
                        self.prog["newtypes"].append(nt)
                        return {"k": "ann", "of": {"k": "newtype", "i": len(self.prog["newtypes"]) - 1}, "c": c2}
                    return {"k": "ann", "of": {"k": "ann", "of": {"k": base}, "c": c}, "c": c2}
            if self.cfg.get("leaf_validators") and base in ("int", "str") and chance(d, 0.3):
                # validators(...) metadata on a non-object node (runs on the deserialized value)
                return {"k": "ann", "of": {"k": base}, "c": c or {}, "val": "not13" if base == "int" else "not_abc"}
            return {"k": "ann", "of": {"k": base}, "c": c} if c else {"k": base}
        return {"k": k}

    def key_type(self) -> dict:
        d = self.draw
        k = pick(d, ["str"] * 5 + ["pat", "lit", "enum", "nt"])
        if k == "pat" and self.cfg["constraints"]:
            return {"k": "ann", "of": {"k": "str"}, "c": {"pattern": pick(d, list(PATTERNS))}}
        if k == "lit":
            n = d(st.integers(1, 3))
            return {"k": "lit", "values": d(st.lists(st.sampled_from(["a", "b", "ab", "x"]), min_size=n, max_size=n, unique=True))}
        if k == "enum" and self.cfg["enums"]:
            n = d(st.integers(1, 3))
            vals = d(st.lists(st.sampled_from(["a", "b", "ab", "x"]), min_size=n, max_size=n, unique=True))
            e = {"name": f"E{self.uid()}", "base": pick(d, ["plain", "str"]), "members": [[f"M{i}", v] for i, v in enumerate(vals)]}
            self.prog["enums"].append(e)
            return {"k": "enum", "i": len(self.prog["enums"]) - 1}
        if k == "nt":
            nt = {"name": f"N{self.uid()}", "of": {"k": "str"}, "c": None}
            if self.cfg["constraints"] and chance(d, 0.5):
                nt["c"] = self.constraints("str")
            self.prog["newtypes"].append(nt)
            return {"k": "newtype", "i": len(self.prog["newtypes"]) - 1}
        return {"k": "str"}

    # -- types --------------------------------------------------------------------------
    def nolit(self, t: dict) -> dict:
        """Serialization refuses Literal members of unions with an explicit TypeError
        ("Literal[...] is not supported in union serialization"): avoided when cfg says so."""
        if t["k"] == "opt":
            return {"k": "opt", "of": self._nolit_alt(t["of"])}
        if t["k"] == "union":
            return dict(t, alts=[self._nolit_alt(a) for a in t["alts"]])
        return t

    def _nolit_alt(self, a: dict) -> dict:
        if a["k"] == "lit" and not self.cfg["lit_in_union"]:
            return {"k": "str"}
        if a["k"] == "ann" and a["of"]["k"] in ("opt", "union"):
            # a union nested through Annotated is not flattened by typing, and serialization refuses it with the same
            # explicit TypeError ("... is not supported in union serialization")
            return self._nolit_alt(a["of"]["of"] if a["of"]["k"] == "opt" else a["of"])
        if a["k"] in ("opt", "union"):
            return self.nolit(a)
        return a

    def type(self, depth: int, hashable: bool = False) -> dict:
        return self.nolit(self._type(depth, hashable))

    def _type(self, depth: int, hashable: bool = False) -> dict:
        d = self.draw
        if depth <= 0:
            return self.leaf(hashable)
        if hashable:
            hk = ["leaf"] * 6 + ["tuple", "opt", "union", "vartuple", "frozenset"]
            if self.cfg["kinds"]:
                hk = [x for x in hk if x in self.cfg["kinds"]] or ["leaf"]
            k = pick(d, hk)
        else:
            kinds = ["leaf"] * 5 + ["opt"] * 2 + ["union"] * 2 + ["list"] * 3 + ["set", "frozenset", "vartuple"] + \
                    ["tuple"] * 2 + ["map"] * 2 + ["anncont"]
            if self.cfg["classes"]:
                kinds += ["cls"] * 5
            if self.cfg["recursion"] and self.stack:
                kinds += ["rec"]
            if self.cfg["kinds"]:
                kinds = [x for x in kinds if x in self.cfg["kinds"]] or ["leaf"]
            k = pick(d, kinds)
        if k == "leaf":
            return self.leaf(hashable)
        if k == "opt":
            if self.cfg["constraints"] and self.cfg.get("constraints_around_optional", True) and not hashable and chance(d, 0.2):
                # constraints declared AROUND the Optional (they apply to the non-null alternative)
                base = pick(d, ["int", "str", "float", "list"])
                c = self.constraints("array" if base == "list" else base)
                inner = {"k": "list", "sp": "List", "of": self.leaf()} if base == "list" else {"k": base}
                if c:
                    return {"k": "ann", "of": {"k": "opt", "of": inner}, "c": c}
            return {"k": "opt", "of": self.type(depth - 1, hashable)}
        if k == "union":
            n = d(st.integers(2, self.cfg["max_alts"]))
            alts = [self.type(depth - 1, hashable) for _ in range(n)]
            if self.cfg["unsup"] and not hashable and chance(d, 0.08):
                alts.insert(d(st.integers(0, len(alts))), {"k": "unsup", "of": {"k": "int"}})
            return {"k": "union", "alts": alts}
        if k == "list":
            return {"k": "list", "sp": pick(d, ["List", "Sequence", "Collection", "list", "MutableSequence"]),
                    "of": self.type(depth - 1)}
        if k == "set":
            return {"k": "set", "sp": pick(d, ["Set", "AbstractSet", "set", "MutableSet"]),
                    "of": self.type(min(depth - 1, 1), True)}
        if k == "frozenset":
            return {"k": "frozenset", "sp": pick(d, ["FrozenSet", "frozenset"]), "of": self.type(min(depth - 1, 1), True)}
        if k == "vartuple":
            return {"k": "vartuple", "sp": pick(d, ["Tuple", "tuple"]), "of": self.type(depth - 1, hashable)}
        if k == "tuple":
            n = d(st.integers(1, 3))
            return {"k": "tuple", "sp": pick(d, ["Tuple", "tuple"]), "items": [self.type(depth - 1, hashable) for _ in range(n)]}
        if k == "map":
            return {"k": "map", "sp": pick(d, ["Dict", "Mapping", "dict", "MutableMapping"]),
                    "key": self.key_type(), "val": self.type(depth - 1)}
        if k == "anncont":
            inner_kind = pick(d, ["list", "map", "tuple", "set"])
            if inner_kind == "list":
                inner = {"k": "list", "sp": pick(d, ["List", "Sequence"]), "of": self.type(depth - 1)}
                c = self.constraints("array")
            elif inner_kind == "set":
                inner = {"k": "set", "sp": "Set", "of": self.leaf(True)}
                c = self.constraints("array")
                if c:
                    c.pop("unique", None)
            elif inner_kind == "tuple":
                n = d(st.integers(1, 3))
                inner = {"k": "tuple", "sp": "Tuple", "items": [self.type(depth - 1) for _ in range(n)]}
                c = {"unique": True} if self.cfg["explicit_unique"] and chance(d, 0.3) else None
            else:
                inner = {"k": "map", "sp": pick(d, ["Dict", "Mapping"]), "key": {"k": "str"}, "val": self.type(depth - 1)}
                c = self.constraints("object")
            if not self.cfg["constraints"] or not c:
                return inner
            return {"k": "ann", "of": inner, "c": c}
        if k == "rec":
            cands = [i for i in self.stack if i not in self.generic_idx]
            if not cands:
                return self.leaf(hashable)
            i = pick(d, cands)
            ref = {"k": "cls", "i": i}
            form = pick(d, ["opt", "list", "map"])
            if form == "opt":
                return {"k": "opt", "of": ref}
            if form == "list":
                return {"k": "list", "sp": "List", "of": ref}
            return {"k": "map", "sp": "Dict", "key": {"k": "str"}, "val": ref}
        if k == "cls":
            done = [i for i in range(len(self.prog["classes"]))
                    if i not in self.stack and i not in self.flattened and self.prog["classes"][i] is not None]
            if self.cfg.get("generics") and chance(d, 0.15):
                # a generic dataclass, specialised where it is used (an existing one is reused with other arguments)
                gens = [i for i in done if self.prog["classes"][i].get("params")]
                i = pick(d, gens) if gens and chance(d, 0.4) else self.new_class(depth - 1, flavor="dataclass", params=["T"])
                arg = self.leaf() if depth <= 1 or chance(d, 0.6) else self.type(depth - 1)
                if not self.cfg["lit_in_union"]:
                    arg = self._nolit_alt(arg)  # T also appears as Optional[T]: no Literal / Annotated-union member of a union
                return {"k": "cls", "i": i, "args": [arg]}
            done = [i for i in done if not self.prog["classes"][i].get("params")]
            if done and chance(d, 0.25):
                return {"k": "cls", "i": pick(d, done)}
            return {"k": "cls", "i": self.new_class(depth - 1)}
        raise AssertionError(k)

    def refs_stack(self, t: dict) -> bool:
        if t["k"] == "cls":
            return t["i"] in self.stack or self.prog["classes"][t["i"]] is None
        return any(self.refs_stack(x) for key in ("of", "key", "val") if isinstance(t.get(key), dict) for x in [t[key]]) or \
            any(self.refs_stack(x) for key in ("alts", "items") for x in t.get(key, []))

    def field_name(self) -> str:
        d = self.draw
        n = self.uid()
        form = pick(d, ["plain", "plain", "snake", "snake2"])
        a, b = pick(d, LETTERS), pick(d, LETTERS)
        if form == "plain":
            return f"{a}{n}"
        if form == "snake":
            return f"{a}{n}_{b}"
        return f"{a}_{b}{n}"

    def alias_name(self) -> str:
        d = self.draw
        n = self.uid()
        return pick(d, self.cfg["alias_pool"] or ["al{}", "Al_{}", "$al{}", "al-{}", "a_l{}", "class{}"]).format(n)

    def new_class(self, depth: int, flavor: Optional[str] = None, for_flatten: bool = False, params=None) -> int:
        d = self.draw
        cfg = self.cfg
        flavors = ["dataclass"] * 6
        if cfg["namedtuple"]:
            flavors += ["namedtuple"] * 2
        if cfg["typeddict"] and not for_flatten:
            flavors += ["typeddict"] * 2
        if cfg["flavors"]:
            flavors = [x for x in flavors if x in cfg["flavors"]] or ["dataclass"]
            if flavor not in cfg["flavors"]:
                flavor = None
        flavor = flavor or pick(d, flavors)
        idx = len(self.prog["classes"])
        self.prog["classes"].append(None)
        cd: Dict[str, Any] = {"name": f"C{self.uid()}", "flavor": flavor, "fields": []}
        self.stack.append(idx)
        if params:
            self.generic_idx.add(idx)
        if for_flatten:
            self.flattened.add(idx)
        try:
            nf = d(st.integers(max(cfg["min_fields"], 0 if not for_flatten else 1), cfg["max_fields"]))
            fields = [self.field(cd, depth, flavor) for _ in range(nf)]
        finally:
            self.stack.pop()
        extra = []
        for f in fields:
            if f.get("kind") == "initvar":
                extra.append({"n": f["n"] + "_st", "t": {"k": "any"}, "kind": "init_false",
                              "default": {"c": ["none"]}, "from_initvar": f["n"]})
        fields += extra
        if params:
            cd["params"] = list(params)
            tv = {"k": "tvar", "name": params[0]}
            for _ in range(d(st.integers(1, 2))):
                form = pick(d, ["T", "T", "list", "opt", "map"])
                gf: Dict[str, Any] = {"n": self.field_name(), "t": {"T": tv, "list": {"k": "list", "sp": "List", "of": tv}, "opt": {"k": "opt", "of": tv},
                                                                    "map": {"k": "map", "sp": "Dict", "key": {"k": "str"}, "val": tv}}[form]}
                if form == "opt":
                    gf["default"] = {"c": ["none"]}
                fields.append(gf)
        if flavor == "typeddict":
            fields.sort(key=lambda f: 0 if f.get("td_required", True) else 1)  # rendered as base + total=False subclass
        if flavor in ("dataclass", "namedtuple"):
            def rank(f):
                if f.get("kind") == "init_false":
                    return 2
                return 0 if f.get("default") is None else 1
            fields.sort(key=rank)
        # at most one `properties` catch-all, distinct patterns
        seen_add, pats = False, set()
        for f in fields:
            agg = f.get("agg")
            if agg == "additional":
                if seen_add:
                    f["agg"] = None
                seen_add = True
            elif isinstance(agg, dict):
                if agg["pattern"] in pats:
                    f["agg"] = None
                pats.add(agg["pattern"])
        cd["fields"] = fields
        if flavor == "dataclass":
            cd["frozen"] = chance(d, 0.2)
            if cfg["class_aliaser"] and chance(d, 0.12):
                cd["aliaser"] = pick(d, ["upper", "pfx"])
            if cfg.get("methods") and not for_flatten and chance(d, 0.35):
                cd["methods"] = [m for m in (self.method(cd, fields, idx) for _ in range(d(st.integers(1, 2)))) if m]
            if cfg.get("class_validators") and not for_flatten and not params and chance(d, 0.6):
                # @validator methods, each reading one int / str field and refusing one value (13 / "abc")
                vc = [f for f in fields if f.get("agg") is None and f.get("kind", "normal") == "normal" and not (f.get("skip") or {}).get("de")
                      and not f.get("fconv") and not f.get("none_as_undefined") and _val_base(f["t"]) is not None]
                if vc:
                    chosen = []
                    for f in vc[:2] if chance(d, 0.3) else [pick(d, vc)]:
                        chosen.append({"name": "chk_" + f["n"], "field": f["n"], "bad": "abc" if _val_base(f["t"]) == "str" else 13})
                    cd["validators"] = chosen
            if cfg["dep_req"] and chance(d, 0.25):
                cands = [f["n"] for f in fields if f.get("agg") is None and f.get("kind", "normal") == "normal"
                         and f.get("default") is not None and not f.get("required") and not (f.get("skip") or {}).get("de")]
                if len(cands) >= 2:
                    a = pick(d, cands)
                    b = pick(d, [c for c in cands if c != a])
                    cd["dep_req"] = {a: [b]}
        self.prog["classes"][idx] = cd
        self.prog.setdefault("order", []).append(idx)
        return idx

    def method(self, cd: dict, fields: list, idx: int = -1) -> Optional[dict]:
        """A serialized method / property: returns one of the object's fields, or a constant of a small type
        (possibly Undefined where the return type allows it)."""
        d = self.draw
        m: Dict[str, Any] = {"n": f"m{self.uid()}", "alias": self.alias_name() if chance(d, 0.4) else None, "prop": chance(d, 0.3)}
        cands = [f for f in fields if f.get("agg") is None and f.get("kind", "normal") == "normal" and not f.get("none_as_undefined")]
        if cands and chance(d, 0.4):
            f = pick(d, cands)
            m.update(kind="field", field=f["n"], ret=f["t"])
            return m
        if idx >= 0 and self.cfg["recursion"] and not cd.get("params") and chance(d, 0.12):  # (a generic class has no default type name)
            # the class refers to itself through the return type of the method only
            form = pick(d, ["opt", "list"])
            ref = {"k": "cls", "i": idx}
            m.update(kind="const", ret={"k": "opt", "of": ref} if form == "opt" else {"k": "list", "sp": "List", "of": ref},
                     value=["none"] if form == "opt" else ["list", []])
            return m
        form = pick(d, ["leaf", "leaf", "list", "opt"])
        inner = self.leaf()
        ret = inner if form == "leaf" else {"k": "list", "sp": "List", "of": inner} if form == "list" else {"k": "opt", "of": inner}
        ret = self.nolit(ret)
        if self.refs_stack(ret):
            return None
        value = value_for(d, self.prog, ret, fuel=1, stack=self.stack)
        try:
            if not M.conforms(self.prog, ret, value):
                return None
        except Exception:
            return None
        if chance(d, 0.25) and ret["k"] != "any":
            alts = M.union_alts(ret) if ret["k"] in ("opt", "union") else [ret]
            ret = self.nolit({"k": "union", "alts": alts + [{"k": "undefined"}]})
            if chance(d, 0.5):
                value = ["undef"]
            elif not M.conforms(self.prog, ret, value):
                return None
        m.update(kind="const", ret=ret, value=value)
        return m

    def field(self, cd: dict, depth: int, flavor: str) -> dict:
        d = self.draw
        cfg = self.cfg
        f: Dict[str, Any] = {"n": self.field_name()}
        agg = None
        if flavor == "dataclass" and cfg["aggregates"] and depth >= 0:
            r = d(st.integers(0, 99))
            if r < 5 and cfg["classes"]:
                agg = "flatten"
            elif r < 9 and cfg["agg_maps"]:
                agg = {"pattern": pick(d, PROP_PATTERNS)}
            elif r < 12 and cfg["agg_maps"]:
                agg = "additional"
        if agg == "flatten":
            f["t"] = {"k": "cls", "i": self.new_class(max(depth - 1, 0), flavor=pick(d, ["dataclass", "dataclass", "namedtuple"]), for_flatten=True)}
            f["agg"] = "flatten"
        elif agg is not None:
            f["t"] = {"k": "map", "sp": pick(d, ["Dict", "Mapping"]), "key": {"k": "str"}, "val": self.type(max(depth - 1, 0))}
            f["agg"] = agg
        else:
            f["t"] = self.type(depth)
        if agg is None and chance(d, 0.3):
            f["alias"] = self.alias_name()
            if chance(d, 0.2):
                f["no_override"] = True
        if flavor == "typeddict":
            f["td_required"] = chance(d, 0.6)
            return f
        # defaults
        has_default = chance(d, 0.45)
        special = d(st.integers(0, 99)) if flavor == "dataclass" and agg is None else 100
        if special < 5 and cfg["undefined"]:
            # Union[T, UndefinedType] = Undefined
            if cfg["constraints"] and cfg.get("constraints_around_optional", True) and chance(d, 0.4):
                # Annotated[Union[T, UndefinedType], schema(...)]: metadata wrapped around the union (the constraints apply to T's values)
                base = pick(d, ["int", "str", "float"])
                c = self.constraints(base)
                f["t"] = {"k": "union", "alts": [{"k": base}, {"k": "undefined"}]}
                if c:
                    f["t"] = {"k": "ann", "of": f["t"], "c": c}
            else:
                f["t"] = {"k": "union", "alts": [f["t"], {"k": "undefined"}]}
            f["default"] = {"c": ["undef"]}
            has_default = False
        elif special < 9:
            f["t"] = {"k": "opt", "of": f["t"]} if f["t"]["k"] not in ("opt", "none", "any") else {"k": "opt", "of": {"k": "int"}}
            f["none_as_undefined"] = True
            f["default"] = {"c": ["none"]}
            has_default = False
        elif special < 13 and cfg["initvar"]:
            f["kind"] = "initvar"
        elif special < 18 and cfg["init_false"]:
            f["kind"] = "init_false"
            has_default = True
        if cfg.get("field_conv") and flavor == "dataclass" and agg is None and f.get("kind", "normal") == "normal" \
                and not f.get("none_as_undefined") and chance(d, 0.2):
            # a field converted at field level: Ver <-> VerObj (build.PRELUDE), also through Optional / List / Dict
            ver = {"k": "std", "t": "ver"}
            form = pick(d, ["ver", "ver", "opt", "list", "map"])
            f["t"] = {"ver": ver, "opt": {"k": "opt", "of": ver}, "list": {"k": "list", "sp": pick(d, ["List", "Sequence"]), "of": ver},
                      "map": {"k": "map", "sp": "Dict", "key": {"k": "str"}, "val": ver}}[form]
            f["fconv"] = True
            f.pop("default", None)
            if has_default:
                f["default"] = {"c": {"ver": ["std", "ver", pick(d, ["1.2", "1.0"])], "opt": ["none"], "list": ["list", []], "map": ["dict", []]}[form]}
            has_default = False
        f["t"] = self.nolit(f["t"])
        if has_default and agg is not None and agg != "flatten":
            f["default"] = {"c": ["dict", []]}  # (a non-empty default would have to respect the key pattern)
        elif has_default:
            f["default"] = {"c": value_for(d, self.prog, f["t"], fuel=1, stack=self.stack)}
            if f.get("kind") == "initvar" and not build._immutable(f["default"]["c"]):
                del f["default"]  # InitVar fields cannot have a default factory
        if cfg["conforming_defaults"] and f.get("default") is not None and f["default"]["c"][0] not in ("undef",):
            try:
                ok = M.conforms(self.prog, f["t"], f["default"]["c"]) or (f.get("none_as_undefined") and f["default"]["c"][0] == "none")
            except Exception:
                ok = True
            if not ok:
                del f["default"]
        if f.get("default") is not None:
            if cfg["required_md"] and chance(d, 0.1) and f.get("kind") != "init_false" and agg is None:
                f["required"] = True  # (meaningless on aggregate fields: they are never "absent")
            elif cfg["fall_back"] and chance(d, 0.15):
                f["fall_back"] = True
        if cfg["skip"] and flavor == "dataclass" and agg is None and f.get("kind", "normal") == "normal" and chance(d, 0.15):
            form = pick(d, ["both", "de", "ser", "ser_default", "ser_default", "ser_if", "ser_if"])
            if form == "ser_default" and chance(d, 0.4) and not f.get("none_as_undefined"):
                # the usual `x: Optional[X] = None` + skip(serialization_default=True)
                if f["t"]["k"] not in ("opt", "none", "any") and not any(a["k"] == "none" for a in (M.union_alts(f["t"]) if f["t"]["k"] == "union" else [])):
                    f["t"] = self.nolit({"k": "opt", "of": f["t"]})
                f["default"] = {"c": ["none"]}
            if form in ("both", "de") and f.get("default") is None:
                f["default"] = {"c": value_for(d, self.prog, f["t"], fuel=1, stack=self.stack)}
            if form == "ser_default" and f.get("default") is None:
                alts_ = M.union_alts(f["t"]) if f["t"]["k"] in ("opt", "union") else [f["t"]]
                if any(a["k"] == "none" for a in alts_) and chance(d, 0.6):
                    f["default"] = {"c": ["none"]}  # the usual `Optional[X] = None` + skip(serialization_default=True)
                else:
                    f["default"] = {"c": value_for(d, self.prog, f["t"], fuel=1, stack=self.stack)}
            f["skip"] = {"both": {"de": True, "ser": True}, "de": {"de": True}, "ser": {"ser": True},
                         "ser_default": {"ser_default": True},
                         "ser_if": {"ser_if": pick(d, ["is_none", "falsy"])}}[form]
        if cfg["constraints"] and agg is None and chance(d, 0.12):
            ft_ = f["t"]["of"] if f["t"]["k"] == "opt" and not f.get("none_as_undefined") else f["t"]  # also around an Optional
            base = M.strip(ft_, self.prog)["k"]
            kind = {"int": "int", "float": "float", "str": "str", "list": "array", "vartuple": "array",
                    "map": "object"}.get(base)
            if kind and ft_["k"] == base and not self.refs_stack(f["t"]):  # no merging with type-level constraints here
                c = self.constraints(kind)
                if c and f.get("default") is None:
                    f["c"] = c
        return f


@st.composite
def programs(draw, cfg: Optional[dict] = None, root_kinds=None):
    g = TypeGen(draw, cfg)
    depth = draw(st.integers(1, g.cfg["max_depth"]))
    g.prog["root"] = g.type(depth)
    return g.prog


# ---------------------------------------------------------------------------------------
# valid data by construction
# ---------------------------------------------------------------------------------------

def _num_ok(c, x):
    return not M.check_constraints({k: c.get(k) for k in M.NUM_C}, x)


_BOUNDARY = [False]
_IN_SET = [False]


def _gen_num(draw, c: Optional[dict], floats: bool):
    cands = list(INTS) + [-2, 4, 6] + (FLOATS if floats else [])
    if c and _BOUNDARY[0]:
        # (data_for "boundary") the bounds themselves and their neighbours, valid or not
        bounds = [c[k] for k in ("min", "max", "exc_min", "exc_max") if c.get(k) is not None]
        if bounds:
            b = pick(draw, bounds)
            return b + pick(draw, [0, 0, 0, 1, -1] + ([0.5, -0.5] if floats else []))
    if c:
        ok = [x for x in cands if _num_ok(c, x)]
        if ok:
            return pick(draw, ok)
    return pick(draw, cands)


def _gen_str(draw, c: Optional[dict]):
    if c:
        pool = PATTERNS.get(c.get("pattern"), STRS) if c.get("pattern") else STRS
        ok = [s for s in pool if not M.check_constraints({k: c.get(k) for k in M.STR_C}, s)]
        if ok:
            return pick(draw, ok)
        return pick(draw, pool)
    return pick(draw, STRS)


def _on_stack(t: dict, stack) -> bool:
    return t["k"] == "cls" and t["i"] in stack


# types converted by apischema/std_types.py (only where a check opts in with cfg["std"]): valid JSON images
STD_VALID = M.STD_IMAGES


def valid(draw, prog: dict, t: dict, dyn: str = "id", fuel: int = 3, c: Optional[dict] = None, stack=()) -> Any:
    k = t["k"]
    if k == "std":
        if t["t"] == "ver" and t.get("via") == "obj":  # through the field-level conversion from VerObj(a, b=0)
            al = build.ALIASERS[dyn]
            img = {al("a"): pick(draw, [1, 0, 3])}
            if chance(draw, 0.7):
                img[al("b")] = pick(draw, [2, 10, 0])
            return img
        if t["t"] == "ver" and chance(draw, 0.4):
            return pick(draw, [[1, 2], [0, 10]])
        pool = STD_VALID[t["t"]]
        if c:
            try:
                pool = [x for x in pool if not M.check_constraints(c, x)] or pool
            except M.Unspecified:
                pass
        return pick(draw, pool)
    if k == "str":
        return _gen_str(draw, c)
    if k == "int":
        return _gen_num(draw, c, False)
    if k == "float":
        return _gen_num(draw, c, True)
    if k == "bool":
        return draw(st.booleans())
    if k == "none":
        return None
    if k == "any":
        if _IN_SET[0]:
            return pick(draw, [0, "a", None, True, 1.5, "b", 2])  # (cfg any_in_sets) below a set: hashable once deserialized
        return draw(small_json)
    if k == "ann":
        try:
            c2 = M.merge_constraints(t["c"], c)
        except M.Unspecified:
            c2 = t["c"]
        d_ = valid(draw, prog, t["of"], dyn, fuel, c2, stack)
        if t.get("val") and not _BOUNDARY[0]:
            d_ = {13: 12, 13.0: 12.0, "abc": "ab"}.get(d_, d_) if isinstance(d_, (int, float, str)) and not isinstance(d_, bool) else d_
        elif t.get("val") and chance(draw, 0.5):
            d_ = 13 if t["val"] == "not13" else "abc"  # (data_for "boundary") the value the validator refuses
        return d_
    if k == "newtype":
        nt = prog["newtypes"][t["i"]]
        try:
            c2 = M.merge_constraints(nt.get("c"), c)
        except M.Unspecified:
            c2 = nt.get("c")
        return valid(draw, prog, nt["of"], dyn, fuel, c2, stack)
    if k == "opt":
        if fuel <= 0 or _on_stack(t["of"], stack) or chance(draw, 0.25):
            return None
        return valid(draw, prog, t["of"], dyn, fuel, c, stack)
    if k == "union":
        alts = [a for a in t["alts"] if a["k"] not in ("unsup", "undefined")]
        return valid(draw, prog, pick(draw, alts), dyn, fuel, c, stack)
    if k in ("list", "set", "frozenset", "vartuple"):
        lo = (c or {}).get("min_items") or 0
        hi = (c or {}).get("max_items")
        if fuel <= 0 or _on_stack(t["of"], stack):
            n = lo
        else:
            n = draw(st.integers(lo, max(lo, min(hi if hi is not None else 3, 3))))
        was_in_set = _IN_SET[0]
        if k in ("set", "frozenset"):
            _IN_SET[0] = True  # conforming data of a Set[... Any ...] have hashable elements; arrays / objects come from the mutants
        try:
            out = [valid(draw, prog, t["of"], dyn, fuel - (0 if fuel > 0 else 0), None, stack) for _ in range(n)]
        finally:
            _IN_SET[0] = was_in_set
        if (c or {}).get("unique") or k in ("set", "frozenset"):
            uniq, seen = [], set()
            for x in out:
                h = repr(M._hashable(x)) if not isinstance(x, (int, float)) or isinstance(x, bool) else ("N", float(x))
                if h not in seen:
                    seen.add(h)
                    uniq.append(x)
            if len(uniq) >= lo:
                out = uniq
        return out
    if k == "tuple":
        return [valid(draw, prog, it, dyn, fuel, None, stack) for it in t["items"]]
    if k == "map":
        lo = (c or {}).get("min_props") or 0
        hi = (c or {}).get("max_props")
        n = lo if fuel <= 0 or _on_stack(t["val"], stack) else draw(st.integers(lo, max(lo, min(hi if hi is not None else 2, 3))))
        out = {}
        for _ in range(n * 2):
            if len(out) >= n:
                break
            key = valid(draw, prog, t["key"], dyn, fuel, None, stack)
            if isinstance(key, str) and key not in out:
                out[key] = valid(draw, prog, t["val"], dyn, fuel, None, stack)
        return out
    if k == "lit":
        v = pick(draw, t["values"])
        if isinstance(v, dict) and "enum" in v:
            e = prog["enums"][v["enum"][0]]
            return dict((m, x) for m, x in e["members"])[v["enum"][1]]
        return v
    if k == "enum":
        return pick(draw, prog["enums"][t["i"]]["members"])[1]
    if k == "cls":
        return valid_object(draw, prog, t, dyn, fuel - 1, stack)
    if k == "undefined" or k == "unsup":
        return None
    raise AssertionError(k)


def _val_base(t: dict) -> Optional[str]:
    """How a class validator `self.f == 13` / `== "abc"` can see the field: its primitive type (possibly under Annotated
    constraints or Optional), "other" for containers and objects (never equal), None for types whose values may compare equal to
    the refused value in ways the model does not follow (Any, unions, enums, literals, NewTypes, converted types)."""
    while t["k"] in ("ann", "opt"):
        if t.get("val"):
            return None
        t = t["of"]
    if t["k"] in ("int", "str", "float"):
        return t["k"]
    if t["k"] in ("list", "set", "frozenset", "vartuple", "tuple", "map", "cls", "bool", "none"):
        return "other"
    return None


def valid_object(draw, prog, t, dyn, fuel, stack) -> dict:
    cd = prog["classes"][t["i"]]
    if cd is None or t["i"] in stack:
        return {}
    if t.get("args"):
        cd = M.specialize(cd, t["args"])
    out: Dict[str, Any] = {}
    included = set()
    fields = M.des_fields(cd)
    for f in fields:
        agg = f.get("agg")
        ft = M.remove_none(f["t"]) if f.get("none_as_undefined") else f["t"]
        if f.get("fconv"):
            ft = M.fconv_type(ft)
        if agg is None:
            if M.is_required(f, cd) or (fuel > 0 and chance(draw, 0.6)):
                out[M.ext_name(f, cd, dyn)] = valid(draw, prog, ft, dyn, fuel, f.get("c"), stack)
                included.add(f["n"])
        elif agg == "flatten":
            out.update(valid(draw, prog, ft, dyn, fuel, None, stack))
        elif isinstance(agg, dict):
            m = valid(draw, prog, ft, dyn, fuel, f.get("c"), stack)
            keys = PROP_KEYS[agg["pattern"]]
            for i, (_, v) in enumerate(list(m.items())[: len(keys)]):
                out[keys[i]] = v
        elif agg == "additional":
            m = valid(draw, prog, ft, dyn, fuel, f.get("c"), stack)
            for i, (_, v) in enumerate(list(m.items())[: len(EXTRA_KEYS)]):
                out[EXTRA_KEYS[i]] = v
    for v in cd.get("validators") or []:
        fv = next(f for f in fields if f["n"] == v["field"])
        key = M.ext_name(fv, cd, dyn)
        if key in out:
            if _BOUNDARY[0] and _val_base(fv["t"]) != "other" and chance(draw, 0.5):
                out[key] = v["bad"]  # (data_for "boundary") the value the class validator refuses
            elif not _BOUNDARY[0] and isinstance(out[key], (int, float, str)) and out[key] == v["bad"] and not isinstance(out[key], bool):
                out[key] = 12 if v["bad"] == 13 else "ab"
    for a, deps in (cd.get("dep_req") or {}).items():
        if _BREAK_DEP[0]:
            # (data_for "dep_violation") the requiring field is there - well-typed or not - and what it requires is not
            fa = next(f for f in fields if f["n"] == a)
            if a not in included or chance(draw, 0.3):
                out[M.ext_name(fa, cd, dyn)] = valid(draw, prog, fa["t"], dyn, fuel, fa.get("c"), stack) if chance(draw, 0.7) else pick(draw, ATOMS)
                included.add(a)
            for b in deps:
                fb = next(f for f in fields if f["n"] == b)
                out.pop(M.ext_name(fb, cd, dyn), None)
                included.discard(b)
            continue
        if a in included:
            for b in deps:
                if b not in included:
                    fb = next(f for f in fields if f["n"] == b)
                    out[M.ext_name(fb, cd, dyn)] = valid(draw, prog, fb["t"], dyn, fuel, fb.get("c"), stack)
                    included.add(b)
    return out


_BREAK_DEP = [False]


small_json = st.recursive(
    st.sampled_from([None, True, False, 0, 1, -1, 2, 1.5, 0.5, "", "a", "b", "1", "true"]),
    lambda ch: st.one_of(st.lists(ch, max_size=3), st.dictionaries(st.sampled_from(["a", "b", "zz", "x_a"]), ch, max_size=3)),
    max_leaves=6,
)

any_json = st.recursive(
    st.sampled_from([None, True, False, 0, 1, -1, 2, 3, 10, 1.5, 0.5, -0.25, "", "a", "b", "ab", "abc", "0", "12", "1", "true", "x_a"]),
    lambda ch: st.one_of(st.lists(ch, max_size=4), st.dictionaries(st.sampled_from(["a", "b", "zz", "x_a", "y1", "a1", "al2"]), ch, max_size=4)),
    max_leaves=12,
)

ATOMS = [None, True, False, 0, 1, -1, 2, 3, 4, 5, 6, 13, 1.5, 0.5, 2.0, -3, "", "a", "b", "ab", "abc", "ba", "0", "12", "1a", [], {}, [0], ["a"], {"a": 1}]


# ---------------------------------------------------------------------------------------
# mutations (planted violations / boundary variations)
# ---------------------------------------------------------------------------------------

def paths(d: Any, prefix=()) -> List[tuple]:
    out = [prefix]
    if isinstance(d, list):
        for i, x in enumerate(d):
            out += paths(x, prefix + (i,))
    elif isinstance(d, dict):
        for k, x in d.items():
            out += paths(x, prefix + (k,))
    return out


def get_at(d, path):
    for p in path:
        d = d[p]
    return d


def set_at(d, path, v):
    if not path:
        return v
    d = copy.deepcopy(d)
    cur = d
    for p in path[:-1]:
        cur = cur[p]
    cur[path[-1]] = v
    return d


def mutate_once(draw, d: Any, avoid=()) -> tuple:
    """Returns (mutated datum, path, kind)."""
    ps = [p for p in paths(d) if not any(p[: len(a)] == a or a[: len(p)] == p for a in avoid)]
    if not ps:
        ps = [()]
    path = pick(draw, ps)
    cur = get_at(d, path)
    kinds = ["swap", "atom"]
    if isinstance(cur, bool):
        kinds += ["bool2int"]
    elif isinstance(cur, (int, float)):
        kinds += ["plus1", "minus1", "int2float", "num2bool", "num2str", "big"]
    elif isinstance(cur, str):
        kinds += ["append", "truncate", "empty", "str2num"]
    elif isinstance(cur, list):
        kinds += ["drop_item", "add_item", "dup_item", "list2dict"]
    elif isinstance(cur, dict):
        kinds += ["drop_key", "drop_key", "add_key", "add_key", "rename_key", "dict2list"]
    if cur is None:
        kinds += ["none2zero"]
    kind = pick(draw, kinds)
    new: Any
    if kind == "swap":
        new = pick(draw, [None, True, 0, 1.5, "a", [], {}])
    elif kind == "atom":
        new = pick(draw, ATOMS)
    elif kind == "bool2int":
        new = int(cur)
    elif kind == "plus1":
        new = cur + 1
    elif kind == "minus1":
        new = cur - 1
    elif kind == "int2float":
        new = cur + 0.5
    elif kind == "num2bool":
        new = bool(cur)
    elif kind == "num2str":
        new = str(cur)
    elif kind == "big":
        new = cur * 100 + 7
    elif kind == "append":
        new = cur + pick(draw, ["a", "b", "1", "_"])
    elif kind == "truncate":
        new = cur[:-1]
    elif kind == "empty":
        new = ""
    elif kind == "str2num":
        new = pick(draw, [0, 1, 1.5])
    elif kind == "drop_item":
        new = list(cur)
        if new:
            new.pop(draw(st.integers(0, len(new) - 1)))
    elif kind == "add_item":
        new = list(cur)
        new.insert(draw(st.integers(0, len(new))), pick(draw, ATOMS))
    elif kind == "dup_item":
        new = list(cur) + (cur[:1] if cur else [0])
    elif kind == "list2dict":
        new = {}
    elif kind == "drop_key":
        new = dict(cur)
        if new:
            new.pop(pick(draw, list(new)))
    elif kind == "add_key":
        new = dict(cur)
        new[pick(draw, EXTRA_KEYS + ["x_a", "y1", "a", "a1"])] = pick(draw, ATOMS)
    elif kind == "rename_key":
        new = dict(cur)
        if new:
            key = pick(draw, list(new))
            v = new.pop(key)
            new[pick(draw, [key + "_", key.upper(), key.lower(), "p_" + key, key[:-1] or "q"])] = v
    elif kind == "dict2list":
        new = []
    elif kind == "none2zero":
        new = pick(draw, [0, "", False])
    else:
        raise AssertionError(kind)
    return set_at(d, path, new), path, kind


def mutants(draw, d: Any, k: int):
    """k mutations at pairwise non-nested paths (sibling branches)."""
    done: List[tuple] = []
    kinds = []
    for _ in range(k):
        d, path, kind = mutate_once(draw, d, avoid=done)
        done.append(path)
        kinds.append(kind)
    return d, done, kinds


def data_for(draw, prog: dict, t: dict, dyn: str = "id", mix=(35, 30, 15, 20)):
    """One datum + its provenance tag."""
    if any(cd and cd.get("dep_req") for cd in prog["classes"]) and chance(draw, 0.25):
        _BREAK_DEP[0] = True
        try:
            return valid(draw, prog, t, dyn), "dep_violation"
        finally:
            _BREAK_DEP[0] = False
    if chance(draw, 0.1):
        _BOUNDARY[0] = True
        try:
            return valid(draw, prog, t, dyn), "boundary"
        finally:
            _BOUNDARY[0] = False
    if any(cd and cd.get("validators") for cd in prog["classes"]) and chance(draw, 0.15):
        # a conforming datum with one property nobody declares, in one of its objects: the only error of that object
        d = valid(draw, prog, t, dyn)
        objs = [p_ for p_ in paths(d) if isinstance(get_at(d, p_), dict)]
        if objs:
            p_ = pick(draw, objs)
            return set_at(d, p_, dict(get_at(d, p_), zz=pick(draw, [0, "a", None]))), "unexpected_only"
        return d, "valid"
    r = draw(st.integers(0, 99))
    if r < mix[0]:
        return valid(draw, prog, t, dyn), "valid"
    if r < mix[0] + mix[1]:
        d = valid(draw, prog, t, dyn)
        d, _, kinds = mutants(draw, d, 1)
        return d, "mutant:" + kinds[0]
    if r < mix[0] + mix[1] + mix[2]:
        d = valid(draw, prog, t, dyn)
        n = draw(st.integers(2, 4))
        d, _, kinds = mutants(draw, d, n)
        return d, "mutant%d" % n
    if r < 90:
        return pick(draw, ATOMS), "atom"
    return draw(any_json), "random"


# ---------------------------------------------------------------------------------------
# typed values (canon form), derived through the reference model from valid data
# ---------------------------------------------------------------------------------------

def value_for(draw, prog: dict, t: dict, fuel: int = 3, stack=()) -> Any:
    m = M.Model(prog)
    for _ in range(4):
        d = valid(draw, prog, t, "id", fuel, None, stack)
        try:
            v, e = m.des(t, d)
        except M.Unspecified:
            continue
        if not e:
            return v
    # fall back on the simplest inhabitants
    return simplest_value(prog, t, stack)


def simplest_value(prog: dict, t: dict, stack=()) -> Any:
    k = t["k"]
    if k == "std":
        return ["std", t["t"], M.STD_IMAGES[t["t"]][0]]
    if k == "str":
        return ["str", ""]
    if k == "int":
        return ["int", 0]
    if k == "float":
        return ["float", 0.0]
    if k == "bool":
        return ["bool", False]
    if k in ("none", "opt"):
        return ["none"]
    if k == "any":
        return ["none"]
    if k == "ann":
        return simplest_value(prog, t["of"], stack)
    if k == "newtype":
        return simplest_value(prog, prog["newtypes"][t["i"]]["of"], stack)
    if k == "union":
        return simplest_value(prog, [a for a in t["alts"] if a["k"] not in ("unsup", "undefined")][0], stack)
    if k == "list":
        return ["list", []]
    if k == "vartuple":
        return ["tuple", []]
    if k in ("set", "frozenset"):
        return [k, []]
    if k == "tuple":
        return ["tuple", [simplest_value(prog, x, stack) for x in t["items"]]]
    if k == "map":
        return ["dict", []]
    if k == "lit":
        m = M.Model(prog)
        return m.lit_value(t["values"][0])[1]
    if k == "enum":
        e = prog["enums"][t["i"]]
        return ["enum", e["name"], e["members"][0][0]]
    if k == "cls":
        cd = prog["classes"][t["i"]]
        if t.get("args"):
            cd = M.specialize(cd, t["args"])
        if cd["flavor"] == "typeddict":
            return ["tdict", {f["n"]: simplest_value(prog, f["t"], stack) for f in cd["fields"] if f.get("td_required", True)}]
        out = {}
        for f in cd["fields"]:
            if f.get("kind") == "initvar":
                continue
            out[f["n"]] = f["default"]["c"] if f.get("default") is not None else simplest_value(prog, f["t"], stack)
        return ["obj", cd["name"], out]
    raise AssertionError(k)


def perturb_value(draw, prog: dict, t: dict, v, depth: int = 0):
    """Bias typed values towards the omission rules of serialization: fields set to None where the
    type allows it, to their default, to Undefined where the type allows it."""
    if depth > 6 or not isinstance(v, list) or not v:
        return v
    k = t["k"]
    if k in ("ann",):
        return perturb_value(draw, prog, t["of"], v, depth)
    if k in ("opt", "union"):
        alts = M.union_alts(t)
        if v[0] != "none" and any(a["k"] == "none" for a in alts) and chance(draw, 0.15):
            return ["none"]
        for a in alts:
            try:
                if a["k"] not in ("unsup", "undefined", "none") and M.class_matches(prog, a, v):
                    return perturb_value(draw, prog, a, v, depth + 1)
            except M.Unspecified:
                return v
        return v
    if k in ("list", "vartuple") and v[0] in ("list", "tuple"):
        return [v[0], [perturb_value(draw, prog, t["of"], x, depth + 1) for x in v[1]]]
    if k == "tuple" and v[0] == "tuple" and len(v[1]) == len(t["items"]):
        return ["tuple", [perturb_value(draw, prog, it, x, depth + 1) for it, x in zip(t["items"], v[1])]]
    if k == "map" and v[0] == "dict":
        return ["dict", [[kk, perturb_value(draw, prog, t["val"], x, depth + 1)] for kk, x in v[1]]]
    if k == "cls" and v[0] == "obj":
        cd = prog["classes"][t["i"]]
        if cd is None or cd["name"] != v[1]:
            return v
        if t.get("args"):
            cd = M.specialize(cd, t["args"])
        out = dict(v[2])
        for f in cd["fields"]:
            n = f["n"]
            if n not in out or f.get("kind", "normal") != "normal" or f.get("from_initvar"):
                continue
            r = draw(st.integers(0, 99))
            alts = M.union_alts(f["t"]) if f["t"]["k"] in ("opt", "union") else [f["t"]]
            if r < (45 if (f.get("skip") or {}).get("ser_default") else 12) and f.get("default") is not None:
                out[n] = f["default"]["c"]
            elif r < 22 and any(a["k"] == "none" for a in alts):
                out[n] = ["none"]
            elif r < 28 and any(a["k"] == "undefined" for a in alts):
                out[n] = ["undef"]
            elif out[n][0] != "undef":
                out[n] = perturb_value(draw, prog, f["t"], out[n], depth + 1)
        return ["obj", v[1], out]
    return v
