#!/venv/bin/python
"""Coverage-guided campaign (atheris / libFuzzer) of one property check.

    python vlib/fuzz_target.py <ID> <tier> <seed> <worker> <runs> <outfile>

The fuzzer mutates the byte buffer from which Hypothesis draws the case (`fuzz_one_input` of the
same strategy the check uses), with branch coverage of the `apischema` package (instrumented at
import) as feedback, and every generated case goes through the same `evaluate` oracle.  The
worker writes the Ctx export (evaluations, buckets, non-trivial keys, histogram) to <outfile>;
the parent (runner.main) merges it with the Hypothesis shards.  Nothing is decided here by a
crash of the target: `evaluate` records violations, exceptions of the harness end the worker
with a traceback in <outfile>.

The starting corpus is a handful of pseudo-random buffers derived from the seed (an empty corpus
makes libFuzzer spend its budget growing inputs up to the length a case needs); `-seed` pins the
mutation sequence approximately, the saved case (JSON) is the reproducible unit.
"""
import json
import os
import random
import shutil
import sys
import tempfile
import traceback

VERIF = os.path.dirname(os.path.dirname(os.path.abspath(__file__)))


def main(argv) -> int:
    prop, tier, seed, worker, runs, outfile = argv[0], argv[1], int(argv[2]), int(argv[3]), int(argv[4]), argv[5]
    os.chdir(VERIF)
    sys.path.insert(0, VERIF)
    deps = os.path.join(VERIF, ".deps")
    sys.path.insert(0, deps)
    import atheris

    with atheris.instrument_imports(include=["apischema"], enable_loader_override=False):
        import vlib.env  # noqa: F401  (imports apischema from the working tree)
        import apischema.graphql  # noqa: F401
        import apischema.json_schema  # noqa: F401
        import importlib
        import pkgutil

        import apischema

        for m in pkgutil.walk_packages(apischema.__path__, "apischema."):
            try:
                importlib.import_module(m.name)
            except Exception:
                pass
    from hypothesis import HealthCheck, given, settings

    from vlib import runner

    mod = importlib.import_module(f"props.{prop.lower()}")
    ctx = runner.Ctx(mod.ID, tier, seed, 1000 + worker, 1)
    ctx.phase = "atheris"
    count = [0]

    def dump(final=False):
        doc = ctx.export()
        doc["atheris_executions"] = count[0]
        doc["final"] = final
        tmp = outfile + ".tmp"
        with open(tmp, "w") as f:
            json.dump(doc, f, default=repr)
        os.replace(tmp, outfile)

    @settings(database=None, deadline=None, suppress_health_check=list(HealthCheck))
    @given(mod.strategy(tier))
    def test(case):
        ctx.h("atheris:cases")
        mod.evaluate(case, ctx)

    fuzz_one = test.hypothesis.fuzz_one_input
    os.makedirs(os.path.join(VERIF, ".scratch"), exist_ok=True)
    corpus = tempfile.mkdtemp(prefix=f"fuzz_{prop}_{worker}_", dir=os.path.join(VERIF, ".scratch"))

    def target(data: bytes):
        count[0] += 1
        try:
            fuzz_one(data)
        except BaseException:
            with open(outfile, "w") as f:
                json.dump({"error": traceback.format_exc()}, f)
            os._exit(2)
        if count[0] % 200 == 0:
            runner._periodic_cleanup()
        if count[0] % 1000 == 0:
            dump()
        if count[0] >= runs:
            dump(final=True)
            shutil.rmtree(corpus, ignore_errors=True)
            sys.stdout.flush()
            os._exit(0)

    rnd = random.Random(f"{seed}:{worker}")
    for i in range(16):
        with open(os.path.join(corpus, f"seed{i}"), "wb") as f:
            f.write(rnd.randbytes(rnd.choice([256, 1024, 4096])))
    try:
        atheris.Setup([sys.argv[0], f"-seed={runner._shard_seed(seed, 1000 + worker) or 1}", f"-runs={runs * 2}", "-max_len=16384",
                       "-len_control=0", "-verbosity=0", "-print_final_stats=0", corpus], target)
        atheris.Fuzz()
    finally:
        shutil.rmtree(corpus, ignore_errors=True)
    return 0


if __name__ == "__main__":
    sys.exit(main(sys.argv[1:]))
