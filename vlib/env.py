"""Import-time environment: the working tree of /repo first on sys.path, then the offline
dependencies of /verif/.deps (prepended before site-packages: /venv's attrs is too old for
`referencing`).  Importing this module must happen before `apischema`/`hypothesis`."""
import os
import subprocess
import sys
import warnings

VERIF = os.path.dirname(os.path.dirname(os.path.abspath(__file__)))
REPO = os.environ.get("APISCHEMA_REPO", "/repo")
DEPS = os.path.join(VERIF, ".deps")

if not os.path.exists(os.path.join(DEPS, ".ok")):
    # checks must be runnable right after a fresh restore even if setup_cmd was skipped
    subprocess.run([sys.executable, os.path.join(VERIF, "setup_deps.py")], check=True,
                   stdout=subprocess.DEVNULL)

for p in (DEPS, REPO):
    if p in sys.path:
        sys.path.remove(p)
sys.path.insert(0, DEPS)
sys.path.insert(0, REPO)
if VERIF not in sys.path:
    sys.path.insert(1, VERIF)

warnings.filterwarnings("ignore", category=DeprecationWarning)
sys.setrecursionlimit(3000)

import apischema  # noqa: E402

_ap = os.path.realpath(os.path.dirname(apischema.__file__))
if not _ap.startswith(os.path.realpath(REPO)):
    raise RuntimeError(f"apischema imported from {_ap}, expected the working tree {REPO}")
