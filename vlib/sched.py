"""Deterministic thread scheduler (C20): threads run one at a time under a baton; at every
injected yield point the running thread hands the baton to the thread chosen by the next element
of a Hypothesis-generated choice list (round-robin once the list is exhausted), so a failing
interleaving shrinks and replays exactly."""
from __future__ import annotations

import threading
from typing import Any, Callable, List


class Deadlock(Exception):
    pass


class Scheduler:
    def __init__(self, choices: list, timeout: float = 10.0, trace_prefix: str = None):
        # trace_prefix: every source line executed in files under that directory is a yield point (sys.settrace
        # in the scheduled threads): preemption anywhere in the library, not only at the injected points
        self.trace_prefix = trace_prefix
        self.choices = list(choices)
        self.ci = 0
        self.cond = threading.Condition()
        self.turn = None
        self.alive: List[int] = []
        self.trace: List[Any] = []
        self.switches = 0
        self.timeout = timeout
        self.local = threading.local()
        self.rr = 0
        self.failed = None
        self.seg_thread, self.seg_left = None, 0
        self.step, self.last_run = 0, {}
        self.pending_after = None
        # replays saved before the segment form existed used a round-robin tail
        self.legacy_tail = bool(self.choices) and all(isinstance(c, int) and not isinstance(c, bool) for c in self.choices)

    # -- called by the threads ------------------------------------------------------------
    def _pick(self, me, must_leave=False, tag=None):
        """Next thread to run.  A choice is either an int (one step: thread = choice mod runnable) or
        a pair [thread, n] (the chosen thread keeps the baton for n yield points); once the choices
        are used up the running thread keeps the baton until it ends (non-preemptive tail), then
        the lowest runnable one.  `must_leave` (a thread spinning on a held lock) forces a switch."""
        runnable = sorted(self.alive)
        if not runnable:
            return None
        nxt = None
        if self.pending_after is not None and me in runnable:
            # ["after", tag, k, t]: the running thread goes on until it passes a yield point whose tag starts with
            # `tag`, then k more yield points, then the baton goes to thread t (dropped if the thread ends first)
            tag_, k_, t_ = self.pending_after
            if tag_ is not None and tag is not None and tag.startswith(tag_):
                self.pending_after = [None, k_, t_]
                tag_ = None
            if tag_ is None:
                if k_ <= 0:
                    self.pending_after = None
                    nxt = runnable[t_ % len(runnable)]
                else:
                    self.pending_after = [None, k_ - 1, t_]
                    nxt = me
            else:
                nxt = me
        elif self.seg_left > 0 and self.seg_thread in runnable:
            self.seg_left -= 1
            nxt = self.seg_thread
        elif self.ci < len(self.choices):
            self.pending_after = None
            c = self.choices[self.ci]
            self.ci += 1
            if isinstance(c, (list, tuple)) and c and c[0] == "after":
                self.pending_after = [c[1], int(c[2]), int(c[3])]
                nxt = me if me in runnable else runnable[0]
            elif isinstance(c, (list, tuple)):
                nxt = runnable[c[0] % len(runnable)]
                self.seg_thread, self.seg_left = nxt, max(int(c[1]) - 1, 0)
            else:
                nxt = runnable[c % len(runnable)]
        elif self.legacy_tail:
            self.rr += 1
            nxt = runnable[self.rr % len(runnable)]
        else:
            nxt = me if me in runnable else runnable[0]
        if must_leave and nxt == me and len(runnable) > 1:
            # fair: the other thread that has been off the baton for longest (the lock holder gets its turn)
            self.seg_left = 0
            nxt = min((t for t in runnable if t != me), key=lambda t: (self.last_run.get(t, -1), t))
        self.step += 1
        self.last_run[nxt] = self.step
        return nxt

    def yield_point(self, tag: str):
        me = getattr(self.local, "idx", None)
        if me is None:  # not one of the scheduled threads (harness itself)
            return
        with self.cond:
            nxt = self._pick(me, must_leave=tag.endswith(".wait"), tag=tag)
            self.trace.append((me, tag, nxt))
            if nxt != me:
                self.switches += 1
                self.turn = nxt
                self.cond.notify_all()
                self._wait_turn(me)

    def _wait_turn(self, me):
        while self.turn != me:
            if not self.cond.wait(self.timeout):
                self.failed = Deadlock(f"thread {me} waited {self.timeout}s for its turn; trace tail {self.trace[-6:]}")
                raise self.failed

    def _tracer(self, frame, event, arg):
        if event == "call" and frame.f_code.co_filename.startswith(self.trace_prefix):
            return self._line_tracer
        return None

    def _line_tracer(self, frame, event, arg):
        if event == "line":
            self.yield_point("line")
        return self._line_tracer

    def _body(self, idx: int, fn: Callable[[], Any], results: list):
        self.local.idx = idx
        if self.trace_prefix:
            import sys
            sys.settrace(self._tracer)
        try:
            try:
                with self.cond:
                    self._wait_turn(idx)
            except Deadlock as e:
                results[idx] = ("exc", e)
                return
            try:
                results[idx] = ("ok", fn())
            except BaseException as e:  # recorded, compared by the oracle
                results[idx] = ("exc", e)
        finally:
            with self.cond:
                if idx in self.alive:
                    self.alive.remove(idx)
                nxt = self._pick(idx)
                self.turn = nxt
                self.cond.notify_all()

    # -- called by the harness -------------------------------------------------------------
    def run(self, fns: List[Callable[[], Any]]) -> list:
        results: list = [None] * len(fns)
        self.alive = list(range(len(fns)))
        threads = [threading.Thread(target=self._body, args=(i, f, results), daemon=True) for i, f in enumerate(fns)]
        for t in threads:
            t.start()
        with self.cond:
            self.turn = self._pick(None)
            self.cond.notify_all()
        for t in threads:
            t.join(self.timeout * 2)
            if t.is_alive():
                raise self.failed or Deadlock("a scheduled thread did not finish")
        return results


class YieldingDict(dict):
    """dict whose reads and writes are yield points."""
    sched: Scheduler = None  # type: ignore
    name = "dict"

    def __contains__(self, key):
        self.sched.yield_point(self.name + ".contains")
        return dict.__contains__(self, key)

    def __getitem__(self, key):
        self.sched.yield_point(self.name + ".get")
        return dict.__getitem__(self, key)

    def __setitem__(self, key, value):
        self.sched.yield_point(self.name + ".set")
        dict.__setitem__(self, key, value)
        self.sched.yield_point(self.name + ".set_done")


class YieldingLock:
    """Lock wrapper whose contended acquire spins through yield points (a thread blocked on a real
    lock while holding the baton would stall the scheduler)."""

    def __init__(self, real, sched: Scheduler, name="lock"):
        self.real, self.sched, self.name = real, sched, name

    SPIN_LIMIT = 20000

    def acquire(self, blocking=True, timeout=-1):
        spins = 0
        while not self.real.acquire(False):
            if not blocking:
                return False
            spins += 1
            if spins > self.SPIN_LIMIT:  # every other thread had thousands of turns and none released it
                self.sched.failed = Deadlock(f"{self.name} never released after {spins} scheduled turns of the other threads")
                raise self.sched.failed
            self.sched.yield_point(self.name + ".wait")
        return True

    def locked(self):
        return self.real.locked() if hasattr(self.real, "locked") else None

    def release(self):
        self.real.release()
        self.sched.yield_point(self.name + ".released")

    def __enter__(self):
        self.acquire()
        return self

    def __exit__(self, *exc):
        self.release()


LOCK_TYPES = (type(threading.Lock()), type(threading.RLock()))


class ThreadingShim:
    """Stands for the `threading` module inside the library while a schedule runs: every lock the
    library creates (at any time) is a YieldingLock, so a thread never blocks on a real lock while
    it holds the baton."""

    def __init__(self, sched: Scheduler):
        self._sched = sched
        self._n = 0

    def __getattr__(self, name):
        return getattr(threading, name)

    def Lock(self):
        self._n += 1
        return YieldingLock(threading.Lock(), self._sched, "lock%d" % self._n)

    def RLock(self):
        self._n += 1
        return YieldingLock(threading.RLock(), self._sched, "rlock%d" % self._n)
