"""Deterministic thread scheduler (C20): threads run one at a time under a baton; at every
injected yield point the running thread hands the baton to the thread chosen by the next element
of a Hypothesis-generated choice list (round-robin once the list is exhausted), so a failing
interleaving shrinks and replays exactly."""
from __future__ import annotations

import threading
from typing import Any, Callable, List


class Deadlock(Exception):
    pass


class Scheduler:
    def __init__(self, choices: List[int], timeout: float = 20.0):
        self.choices = list(choices)
        self.ci = 0
        self.cond = threading.Condition()
        self.turn = None
        self.alive: List[int] = []
        self.trace: List[Any] = []
        self.switches = 0
        self.timeout = timeout
        self.local = threading.local()
        self.rr = 0
        self.failed = None

    # -- called by the threads ------------------------------------------------------------
    def _pick(self, me):
        runnable = sorted(self.alive)
        if not runnable:
            return None
        if self.ci < len(self.choices):
            nxt = runnable[self.choices[self.ci] % len(runnable)]
            self.ci += 1
        else:
            self.rr += 1
            nxt = runnable[self.rr % len(runnable)]
        return nxt

    def yield_point(self, tag: str):
        me = getattr(self.local, "idx", None)
        if me is None:  # not one of the scheduled threads (harness itself)
            return
        with self.cond:
            nxt = self._pick(me)
            self.trace.append((me, tag, nxt))
            if nxt != me:
                self.switches += 1
                self.turn = nxt
                self.cond.notify_all()
                self._wait_turn(me)

    def _wait_turn(self, me):
        while self.turn != me:
            if not self.cond.wait(self.timeout):
                self.failed = Deadlock(f"thread {me} waited {self.timeout}s for its turn; trace tail {self.trace[-6:]}")
                raise self.failed

    def _body(self, idx: int, fn: Callable[[], Any], results: list):
        self.local.idx = idx
        try:
            with self.cond:
                self._wait_turn(idx)
            try:
                results[idx] = ("ok", fn())
            except BaseException as e:  # recorded, compared by the oracle
                results[idx] = ("exc", e)
        finally:
            with self.cond:
                if idx in self.alive:
                    self.alive.remove(idx)
                nxt = self._pick(idx)
                self.turn = nxt
                self.cond.notify_all()

    # -- called by the harness -------------------------------------------------------------
    def run(self, fns: List[Callable[[], Any]]) -> list:
        results: list = [None] * len(fns)
        self.alive = list(range(len(fns)))
        threads = [threading.Thread(target=self._body, args=(i, f, results), daemon=True) for i, f in enumerate(fns)]
        for t in threads:
            t.start()
        with self.cond:
            self.turn = self._pick(None)
            self.cond.notify_all()
        for t in threads:
            t.join(self.timeout * 2)
            if t.is_alive():
                raise self.failed or Deadlock("a scheduled thread did not finish")
        return results


class YieldingDict(dict):
    """dict whose reads and writes are yield points."""
    sched: Scheduler = None  # type: ignore
    name = "dict"

    def __contains__(self, key):
        self.sched.yield_point(self.name + ".contains")
        return dict.__contains__(self, key)

    def __getitem__(self, key):
        self.sched.yield_point(self.name + ".get")
        return dict.__getitem__(self, key)

    def __setitem__(self, key, value):
        self.sched.yield_point(self.name + ".set")
        dict.__setitem__(self, key, value)
        self.sched.yield_point(self.name + ".set_done")


class YieldingLock:
    """Lock wrapper whose contended acquire spins through yield points (a thread blocked on a real
    lock while holding the baton would stall the scheduler)."""

    def __init__(self, real, sched: Scheduler, name="lock"):
        self.real, self.sched, self.name = real, sched, name

    def acquire(self, blocking=True, timeout=-1):
        while not self.real.acquire(False):
            if not blocking:
                return False
            self.sched.yield_point(self.name + ".wait")
        return True

    def release(self):
        self.real.release()
        self.sched.yield_point(self.name + ".released")

    def __enter__(self):
        self.acquire()
        return self

    def __exit__(self, *exc):
        self.release()
