"""jsonschema wrappers: validators per dialect, meta-schema checks, keyword of the first error."""
from __future__ import annotations

import copy
from typing import Any, Optional

import jsonschema
from jsonschema import Draft4Validator, Draft7Validator, Draft201909Validator, Draft202012Validator

VALIDATORS = {
    "2020-12": Draft202012Validator,
    "2019-09": Draft201909Validator,
    "draft-07": Draft7Validator,
    "draft-04": Draft4Validator,
}


def check_schema(schema: Any, dialect: str = "2020-12") -> Optional[str]:
    """None if the schema is valid against the dialect's meta-schema, else a message."""
    try:
        VALIDATORS[dialect].check_schema(schema)
        return None
    except jsonschema.exceptions.SchemaError as e:
        return f"{list(e.absolute_path)}: {e.message}"[:300]


def validator(schema: Any, dialect: str = "2020-12"):
    return VALIDATORS[dialect](schema)


def first_error_keyword(v, d: Any) -> Optional[str]:
    try:
        err = jsonschema.exceptions.best_match(v.iter_errors(d))
    except Exception as e:  # unresolvable $ref, ...
        return f"<{type(e).__name__}>"
    if err is None:
        return None
    while err.context:
        sub = jsonschema.exceptions.best_match(err.context)
        if sub is None:
            break
        err = sub
    return str(err.validator)


def error_keywords(v, d: Any) -> set:
    """Every keyword reported anywhere in the error tree (anyOf / oneOf contexts included)."""
    out = set()

    def walk(errs, depth=0):
        for e in errs:
            out.add(str(e.validator))
            if e.context and depth < 12:
                walk(e.context, depth + 1)

    try:
        walk(v.iter_errors(d))
    except Exception as e:
        out.add(f"<{type(e).__name__}>")
    return out


def is_valid(v, d: Any) -> bool:
    return v.is_valid(d)


def has_int_valued_float(d: Any) -> bool:
    if isinstance(d, float):
        return d == int(d) if d == d and d not in (float("inf"), float("-inf")) else True
    if isinstance(d, list):
        return any(has_int_valued_float(x) for x in d)
    if isinstance(d, dict):
        return any(has_int_valued_float(x) for x in d.values())
    return False


def strip_keyword(schema: Any, keyword: str) -> Any:
    if isinstance(schema, dict):
        return {k: strip_keyword(v, keyword) for k, v in schema.items() if k != keyword}
    if isinstance(schema, list):
        return [strip_keyword(x, keyword) for x in schema]
    return schema


def keywords(schema: Any, acc=None) -> set:
    acc = set() if acc is None else acc
    if isinstance(schema, dict):
        for k, v in schema.items():
            acc.add(k)
            if k in ("properties", "patternProperties", "$defs", "definitions", "dependentRequired", "dependencies"):
                if isinstance(v, dict):
                    for x in v.values():
                        keywords(x, acc)
            elif k in ("enum", "const", "default", "examples", "example", "required"):
                continue
            else:
                keywords(v, acc)
    elif isinstance(schema, list):
        for x in schema:
            keywords(x, acc)
    return acc


def neutralise_flatten(schema: Any, drop_required: bool = False) -> Any:
    """Neutraliser of the known finding "flattened objects": apischema emits
    allOf[{parent, additionalProperties: false | S}, {flattened, additionalProperties: false | S'}] +
    unevaluatedProperties: false (the documented output of examples/flattened.py), whose branches
    apply their additionalProperties to each other's properties.  The schema deserialize actually
    implements is obtained by: dropping additionalProperties: false from the parent branch (relying
    on unevaluatedProperties), moving a parent additionalProperties: S to unevaluatedProperties: S,
    and dropping additionalProperties / patternProperties of the flattened branches altogether (a
    flattened object only ever receives its own named properties).  Referenced definitions are
    inlined.  Only used to re-evaluate cases absorbed by that finding."""
    root = copy.deepcopy(schema)
    defs = root.get("$defs", {}) if isinstance(root, dict) else {}

    def resolve(node, seen):
        while isinstance(node, dict) and isinstance(node.get("$ref"), str) and node["$ref"].startswith("#/$defs/"):
            name = node["$ref"].split("/")[-1]
            target = defs.get(name)
            if target is None or name in seen:
                return node
            seen = seen | {name}
            rest = {k: v for k, v in node.items() if k != "$ref"}
            node = {**copy.deepcopy(target), **rest}
        return node

    def is_flatten(node):
        return isinstance(node, dict) and isinstance(node.get("allOf"), list) and node["allOf"] and \
            isinstance(node["allOf"][0], dict) and node["allOf"][0].get("type") == "object"

    def flattened_branch(node, seen):
        node = resolve(node, seen)
        if not isinstance(node, dict):
            return node
        node = dict(node)
        node.pop("additionalProperties", None)
        node.pop("patternProperties", None)
        node.pop("unevaluatedProperties", None)
        if drop_required:  # second known finding: a flattened field skipped as a whole by serialization
            node.pop("required", None)
            node.pop("dependentRequired", None)
        if "allOf" in node:
            node["allOf"] = [flattened_branch(b, seen) for b in node["allOf"]]
        return node

    def fix(node):
        branches = node["allOf"]
        b0 = dict(branches[0])
        add = b0.pop("additionalProperties", None)
        node["allOf"] = [b0] + [flattened_branch(b, frozenset()) for b in branches[1:]]
        if isinstance(add, dict):
            node["unevaluatedProperties"] = add

    def walk(node):
        if isinstance(node, dict):
            if is_flatten(node):
                fix(node)
            for v in list(node.values()):
                walk(v)
        elif isinstance(node, list):
            for x in node:
                walk(x)

    walk(root)
    return root
