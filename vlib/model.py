"""Reference interpreter of the *documented* apischema data model over type descriptors.

It never looks at Python typing objects and imports nothing from apischema.  Wherever the
documentation does not settle an outcome it raises `Unspecified` (the case is counted and
skipped, never compared).  Rules and their sources: DESIGN.md Appendix A.

Typed values are represented by JSON-able "canon" lists, see `canon()` for real values:
  ["none"] ["bool",b] ["int",n] ["float",x] ["str",s] ["undef"]
  ["list",[..]] ["tuple",[..]] ["set",[..sorted]] ["frozenset",[..sorted]]
  ["dict",[[k,v]..sorted]] ["tdict",{key:v}] ["obj",ClassName,{field:v}] ["enum",EnumName,Member]
"""
from __future__ import annotations

import json
import re
from typing import Any, Dict, List, Optional, Tuple

from vlib.build import ALIASERS


class Unspecified(Exception):
    """The documentation does not settle this case."""


# ---------------------------------------------------------------------------------------
# error trees (same shape as apischema's, rebuilt independently)
# ---------------------------------------------------------------------------------------

class Err:
    __slots__ = ("msgs", "children", "fuzzy")

    def __init__(self, msgs=None, children=None, fuzzy=False):
        self.msgs: List[str] = list(msgs or [])
        self.children: Dict[Any, "Err"] = dict(children or {})
        self.fuzzy = fuzzy  # reject verdict is certain, the exact messages are not specified

    def __bool__(self):
        return bool(self.msgs or self.children or self.fuzzy)

    def merge(self, other: Optional["Err"]) -> "Err":
        if other is None:
            return self
        self.msgs.extend(other.msgs)
        self.fuzzy = self.fuzzy or other.fuzzy
        for k, v in other.children.items():
            if k in self.children:
                self.children[k].merge(v)
            else:
                self.children[k] = v
        return self

    def is_fuzzy(self) -> bool:
        return self.fuzzy or any(c.is_fuzzy() for c in self.children.values())

    def flat(self, prefix=()) -> List[Tuple[tuple, str]]:
        out = [(tuple(prefix), m) for m in self.msgs]
        for k in sorted(self.children):
            out.extend(self.children[k].flat(tuple(prefix) + (k,)))
        return out


JSON_NAMES = {type(None): "null", bool: "boolean", int: "integer", float: "number", str: "string",
              list: "array", dict: "object"}


def jname(d: Any) -> str:
    try:
        return JSON_NAMES[d.__class__]
    except KeyError:
        raise Unspecified(f"non-JSON class {d.__class__.__name__}")


def bad_type(d: Any, *expected: str) -> Err:
    return Err([f"expected type {e}, found {jname(d)}" for e in expected])


MSG = {
    "min": "less than {} (minimum)",
    "max": "greater than {} (maximum)",
    "exc_min": "less than or equal to {} (exclusiveMinimum)",
    "exc_max": "greater than or equal to {} (exclusiveMinimum)",
    "mult_of": "not a multiple of {} (multipleOf)",
    "min_len": "string length lower than {} (minLength)",
    "max_len": "string length greater than {} (maxLength)",
    "pattern": "not matching pattern {} (pattern)",
    "min_items": "item count lower than {} (minItems)",
    "max_items": "item count greater than {} (maxItems)",
    "unique": "duplicate items (uniqueItems)",
    "min_props": "property count lower than {} (minProperties)",
    "max_props": "property count greater than {} (maxProperties)",
}
TEXT = {"missing": "missing property", "unexpected": "unexpected property"}
ORDER = list(MSG)

# name of each message in apischema.settings.errors
SETTINGS_ERRORS = {"min": "minimum", "max": "maximum", "exc_min": "exclusive_minimum", "exc_max": "exclusive_maximum", "mult_of": "multiple_of",
                   "min_len": "min_length", "max_len": "max_length", "pattern": "pattern", "min_items": "min_items", "max_items": "max_items",
                   "unique": "unique_items", "min_props": "min_properties", "max_props": "max_properties",
                   "missing": "missing_property", "unexpected": "unexpected_property"}


class custom_errors:
    """Context manager: settings.errors.<name> = "E-<name> {}" for every message of SETTINGS_ERRORS (the library side) and the
    same texts in MSG / TEXT (the model side); everything is restored on exit."""

    def __enter__(self):
        import apischema

        self.saved_settings = {}
        self.saved_msg, self.saved_text = dict(MSG), dict(TEXT)
        for key, name in SETTINGS_ERRORS.items():
            self.saved_settings[name] = getattr(apischema.settings.errors, name)
            text = f"E-{name}" + (" {}" if "{}" in str(self.saved_settings[name]) else "")
            setattr(apischema.settings.errors, name, text)
            (MSG if key in MSG else TEXT)[key] = text
        return self

    def __exit__(self, *exc):
        import apischema

        for name, val in self.saved_settings.items():
            setattr(apischema.settings.errors, name, val)
        MSG.clear()
        MSG.update(self.saved_msg)
        TEXT.clear()
        TEXT.update(self.saved_text)
NUM_C = ("min", "max", "exc_min", "exc_max", "mult_of")
STR_C = ("min_len", "max_len", "pattern")
ARR_C = ("min_items", "max_items", "unique")
OBJ_C = ("min_props", "max_props")


def merge_constraints(a: Optional[dict], b: Optional[dict]) -> Optional[dict]:
    """json_schema.md "Constraints ... are merged": the strictest bound wins."""
    if not a:
        return dict(b) if b else None
    if not b:
        return dict(a)
    out = dict(a)
    for k, v in b.items():
        if v is None:
            continue
        if out.get(k) is None:
            out[k] = v
        elif k in ("min", "exc_min", "min_len", "min_items", "min_props"):
            out[k] = max(out[k], v)
        elif k in ("max", "exc_max", "max_len", "max_items", "max_props"):
            out[k] = min(out[k], v)
        elif k == "mult_of":
            raise Unspecified("merged multipleOf")
        elif k == "pattern":
            raise Unspecified("merged patterns")
        elif k == "unique":
            out[k] = out[k] or v
    return out


def _hashable(d: Any):
    if isinstance(d, list):
        return ("L",) + tuple(_hashable(x) for x in d)
    if isinstance(d, dict):
        return ("D",) + tuple((k, _hashable(d[k])) for k in sorted(d))
    if isinstance(d, bool):
        return ("B", d)
    if isinstance(d, (int, float)):
        return ("N", d)
    return (d.__class__.__name__, d)


def check_constraints(c: Optional[dict], d: Any) -> List[str]:
    """json_schema.md "Constraints validation": JSON Schema meaning, applied by JSON class."""
    if not c:
        return []
    out = []
    if isinstance(d, bool) or d is None:
        return out
    if isinstance(d, (int, float)):
        if d != d or d in (float("inf"), float("-inf")):
            raise Unspecified("nan/inf against numeric constraints")
        if c.get("min") is not None and not d >= c["min"]:
            out.append(MSG["min"].format(c["min"]))
        if c.get("max") is not None and not d <= c["max"]:
            out.append(MSG["max"].format(c["max"]))
        if c.get("exc_min") is not None and not d > c["exc_min"]:
            out.append(MSG["exc_min"].format(c["exc_min"]))
        if c.get("exc_max") is not None and not d < c["exc_max"]:
            out.append(MSG["exc_max"].format(c["exc_max"]))
        if c.get("mult_of") is not None:
            q = d / c["mult_of"]
            if q != int(q):
                out.append(MSG["mult_of"].format(c["mult_of"]))
    elif isinstance(d, str):
        if c.get("min_len") is not None and len(d) < c["min_len"]:
            out.append(MSG["min_len"].format(c["min_len"]))
        if c.get("max_len") is not None and len(d) > c["max_len"]:
            out.append(MSG["max_len"].format(c["max_len"]))
        if c.get("pattern") is not None and re.match(c["pattern"], d) is None:
            out.append(MSG["pattern"].format(c["pattern"]))
    elif isinstance(d, list):
        if c.get("min_items") is not None and len(d) < c["min_items"]:
            out.append(MSG["min_items"].format(c["min_items"]))
        if c.get("max_items") is not None and len(d) > c["max_items"]:
            out.append(MSG["max_items"].format(c["max_items"]))
        if c.get("unique"):
            hs = [_hashable(x) for x in d]
            if len(set(hs)) != len(hs):
                out.append(MSG["unique"])
            else:
                # JSON Schema: 1 and 1.0 are equal, true and 1 are not; Python disagrees on both
                py = []
                for x in d:
                    try:
                        py.append(json.dumps(x, sort_keys=True))
                    except Exception:
                        raise Unspecified("unique on non-JSON")
                nums = [x for x in d if isinstance(x, (int, float))]
                if len(set(nums)) != len(nums) or _nested_num_clash(d):
                    raise Unspecified("uniqueItems with bool/number equalities")
    elif isinstance(d, dict):
        if c.get("min_props") is not None and len(d) < c["min_props"]:
            out.append(MSG["min_props"].format(c["min_props"]))
        if c.get("max_props") is not None and len(d) > c["max_props"]:
            out.append(MSG["max_props"].format(c["max_props"]))
    return out


def _nested_num_clash(d: list) -> bool:
    # python-equal but JSON-distinct (or vice versa) nested items, e.g. [[1],[True]] / [[1],[1.0]]
    def py(x):
        if isinstance(x, list):
            return tuple(py(y) for y in x)
        if isinstance(x, dict):
            return tuple(sorted((k, py(v)) for k, v in x.items()))
        return x

    try:
        return len(set(py(x) for x in d)) != len(d)
    except TypeError:
        return True


# ---------------------------------------------------------------------------------------
# canonical form of real values
# ---------------------------------------------------------------------------------------

def _sortkey(c):
    return json.dumps(c, sort_keys=True, default=repr)


def _imgkey(c, prog=None):
    """Key of the JSON image of a typed value, approximately (field names stand for aliases, no omission rule):
    `unique` constrains the serialized items, and distinct values can have equal images ({} and an object without fields)."""
    tag = c[0]
    if tag in ("none", "undef"):
        return ("N",)
    if tag == "bool":
        return ("B", c[1])
    if tag in ("int", "float"):
        return ("#", c[1] if c[1] == "nan" else float(c[1]))
    if tag == "str":
        return ("S", c[1])
    if tag in ("list", "tuple"):
        return ("L",) + tuple(_imgkey(x, prog) for x in c[1])
    if tag in ("set", "frozenset"):
        return ("L",) + tuple(sorted((_imgkey(x, prog) for x in c[1]), key=repr))
    if tag == "dict":
        return ("D",) + tuple(sorted(((_imgkey(k, prog), _imgkey(v, prog)) for k, v in c[1]), key=repr))
    if tag == "tdict":
        return ("D",) + tuple(sorted(((("S", k), _imgkey(v, prog)) for k, v in c[1].items() if v[0] != "undef"), key=repr))
    if tag == "obj":
        return ("D",) + tuple(sorted(((("S", k), _imgkey(v, prog)) for k, v in c[2].items() if v[0] != "undef"), key=repr))
    if tag == "enum" and prog is not None:
        e = next((e for e in prog["enums"] if e["name"] == c[1]), None)
        if e is not None:
            val = dict((m, x) for m, x in e["members"])[c[2]]
            return _imgkey(canon_json(val), prog)
    return ("?", _sortkey(c))


def canon(v: Any) -> Any:
    import dataclasses
    import enum

    from apischema import Undefined  # only the sentinel object is needed

    if v is None:
        return ["none"]
    if v is Undefined:
        return ["undef"]
    cls = v.__class__
    if cls is bool:
        return ["bool", v]
    if cls is int:
        return ["int", v]
    if cls is float:
        if v != v:
            return ["float", "nan"]
        return ["float", v]
    if cls is str:
        return ["str", v]
    if isinstance(v, enum.Enum):
        return ["enum", cls.__name__, v.name]
    if cls is list:
        return ["list", [canon(x) for x in v]]
    if cls is tuple:
        return ["tuple", [canon(x) for x in v]]
    if cls is set:
        return ["set", sorted((canon(x) for x in v), key=_sortkey)]
    if cls is frozenset:
        return ["frozenset", sorted((canon(x) for x in v), key=_sortkey)]
    if cls is dict:
        return ["dict", sorted(([canon(k), canon(x)] for k, x in v.items()), key=_sortkey)]
    if dataclasses.is_dataclass(v):
        return ["obj", cls.__name__, {f.name: canon(getattr(v, f.name, Undefined)) for f in dataclasses.fields(v)}]
    if isinstance(v, tuple) and hasattr(v, "_fields"):
        return ["obj", cls.__name__, {n: canon(getattr(v, n)) for n in v._fields}]
    for base, tag in ((bool, "bool"), (int, "int"), (float, "float"), (str, "str")):
        if isinstance(v, base):
            return ["sub", cls.__name__, [tag, base(v)]]
    std = _std_canon(v)
    if std is not None:
        return std
    return ["py", cls.__name__, repr(v)]


# build.PRELUDE's VerObj, source / target of the field-level conversions of a `fconv` field
VEROBJ_CD = {"name": "VerObj", "flavor": "dataclass", "fields": [{"n": "a", "t": {"k": "int"}}, {"n": "b", "t": {"k": "int"}, "default": {"c": ["int", 0]}}]}
VEROBJ_T = {"k": "cls", "i": -1, "cd": VEROBJ_CD}


def fconv_type(t: dict) -> dict:
    """Type of a field carrying conversion(deserialization=ver_from_obj, serialization=ver_to_obj): every Ver
    it reaches (through containers and unions, not through objects) goes through VerObj."""
    if t["k"] == "std" and t["t"] == "ver":
        return dict(t, via="obj")
    if t["k"] == "cls":
        return t
    out = dict(t)
    for key in ("of", "key", "val"):
        if isinstance(out.get(key), dict):
            out[key] = fconv_type(out[key])
    for key in ("alts", "items"):
        if key in out:
            out[key] = [fconv_type(x) for x in out[key]]
    return out


LEAF_VALIDATORS = {
    "not13": (lambda v: v[0] in ("int", "float") and v[1] == 13, "unlucky 13"),
    "not_abc": (lambda v: v == ["str", "abc"], "no abc"),
}

STD_IMAGES = {
    "uuid": ["12345678-1234-5678-1234-567812345678", "00000000-0000-0000-0000-000000000000"],
    "date": ["2020-01-02", "1999-12-31"],
    "datetime": ["2020-01-02T03:04:05", "2020-01-02T03:04:05+00:00"],
    "time": ["03:04:05", "23:59:00"],
    "decimal": [1.5, 0.25, 2.0],
    "bytes": ["YWJj", "", "YQ==", "+/+/", "/w==", "A+B/"],  # (both characters where the URL-safe alphabet differs)
    "path": ["a/b", "/tmp/x", "x"],
    "ipv4": ["127.0.0.1", "10.0.0.255"],
    "amount": [1, "a", 0, "12"],  # build.PRELUDE's Amount <-> Union[int, str]
    "ver": ["1.2", "0.10"],  # build.PRELUDE's Ver (two deserializers): only where cfg["std_multi"] asks for it, never modelled
}


def _std_canon(v):
    import base64
    import datetime
    import decimal
    import ipaddress
    import pathlib
    import uuid

    cls = v.__class__
    if cls is uuid.UUID:
        return ["std", "uuid", str(v)]
    if cls is datetime.datetime:
        return ["std", "datetime", v.isoformat()]
    if cls is datetime.date:
        return ["std", "date", v.isoformat()]
    if cls is datetime.time:
        return ["std", "time", v.isoformat()]
    if cls is decimal.Decimal:
        return ["std", "decimal", float(v)]
    if cls is bytes:
        return ["std", "bytes", base64.b64encode(v).decode()]
    if isinstance(v, pathlib.PurePath):
        return ["std", "path", str(v)]
    if cls is ipaddress.IPv4Address:
        return ["std", "ipv4", str(v)]
    if cls.__name__ == "Amount" and hasattr(v, "v"):
        return ["std", "amount", v.v]
    if cls.__name__ == "Ver" and hasattr(v, "a") and hasattr(v, "b"):
        return ["std", "ver", f"{v.a}.{v.b}"]
    return None


def canon_json(d: Any) -> Any:
    """canon of an untouched JSON datum (what `Any` yields)."""
    if d is None:
        return ["none"]
    if d.__class__ is bool:
        return ["bool", d]
    if d.__class__ is int:
        return ["int", d]
    if d.__class__ is float:
        return ["float", d]
    if d.__class__ is str:
        return ["str", d]
    if d.__class__ is list:
        return ["list", [canon_json(x) for x in d]]
    if d.__class__ is dict:
        return ["dict", sorted(([["str", k], canon_json(v)] for k, v in d.items()), key=_sortkey)]
    raise Unspecified("non-JSON datum")


def tdict_equal(a, b) -> bool:
    return a == b


def canon_eq(a: Any, b: Any) -> bool:
    """Equality of canons; a TypedDict image ["tdict",{..}] equals the plain dict canon."""
    a, b = _norm(a), _norm(b)
    return a == b


def _norm(c):
    if not isinstance(c, list) or not c:
        return c
    tag = c[0]
    if tag == "tdict":
        return ["dict", sorted(([["str", k], _norm(v)] for k, v in c[1].items()), key=_sortkey)]
    if tag in ("list", "tuple"):
        return [tag, [_norm(x) for x in c[1]]]
    if tag in ("set", "frozenset"):
        return [tag, sorted((_norm(x) for x in c[1]), key=_sortkey)]
    if tag == "dict":
        return ["dict", sorted(([_norm(k), _norm(v)] for k, v in c[1]), key=_sortkey)]
    if tag == "obj":
        return ["obj", c[1], {k: _norm(v) for k, v in c[2].items()}]
    if tag == "nt":
        return _norm(c[1])
    return c


def pykey(c: Any, prog=None):
    """Python-equality key of the value described by a canon (for set semantics)."""
    tag = c[0]
    if tag == "enum" and prog is not None:
        e = next(e for e in prog["enums"] if e["name"] == c[1])
        if e.get("base", "plain") in ("int", "str"):  # mixin enum members equal (and hash as) their value
            val = dict((m, x) for m, x in e["members"])[c[2]]
            return ("num", val) if isinstance(val, (int, float)) else ("str", val)
    if tag in ("bool", "int", "float"):
        return ("num", c[1])
    if tag in ("str", "none", "undef"):
        return (tag, c[1] if len(c) > 1 else None)
    if tag == "tuple":
        return ("tuple", tuple(pykey(x, prog) for x in c[1]))
    if tag == "frozenset" or tag == "set":
        return ("fs", frozenset(pykey(x, prog) for x in c[1]))
    if tag == "enum":
        return ("enum", c[1], c[2])
    if tag == "nt":
        return pykey(c[1], prog)
    return ("other", _sortkey(c))


def make_set(tag: str, items: List[Any], prog=None) -> Any:
    seen = {}
    for c in items:
        k = pykey(c, prog)
        if k in seen:
            if seen[k] != c:
                raise Unspecified("python-equal set elements of different classes")
            continue
        seen[k] = c
    return [tag, sorted(seen.values(), key=_sortkey)]


# ---------------------------------------------------------------------------------------
# names
# ---------------------------------------------------------------------------------------

def ext_name(f: dict, cd: dict, dyn: str = "id") -> str:
    """json_schema.md "Field alias" / "Alias all fields" / "Dynamic aliasing"."""
    name = f["alias"] if f.get("alias") is not None else f["n"]
    if cd.get("aliaser") and not f.get("no_override"):
        name = ALIASERS[cd["aliaser"]](name)
    return ALIASERS[dyn](name)


def des_fields(cd: dict) -> List[dict]:
    return [f for f in cd["fields"]
            if f.get("kind", "normal") != "init_false" and not (f.get("skip") or {}).get("de")]


def ser_fields(cd: dict) -> List[dict]:
    return [f for f in cd["fields"]
            if f.get("kind", "normal") != "initvar" and not (f.get("skip") or {}).get("ser")]


def is_required(f: dict, cd: dict) -> bool:
    if cd["flavor"] == "typeddict":
        return bool(f.get("td_required", True)) or bool(f.get("required"))
    return f.get("default") is None or bool(f.get("required"))


def flat_names(prog: dict, cd: dict, dyn: str, seen=()) -> List[str]:
    """External names an object consumes directly or through flattened fields."""
    out = []
    for f in des_fields(cd):
        agg = f.get("agg")
        if agg == "flatten":
            sub = prog["classes"][strip(f["t"], prog)["i"]]
            out += flat_names(prog, sub, dyn)
        elif agg is None:
            out.append(ext_name(f, cd, dyn))
    return out


def strip(t: dict, prog: dict) -> dict:
    """Remove Annotated / NewType wrappers."""
    while t["k"] in ("ann", "newtype"):
        t = t["of"] if t["k"] == "ann" else prog["newtypes"][t["i"]]["of"]
    return t


# ---------------------------------------------------------------------------------------
# deserialization
# ---------------------------------------------------------------------------------------

class Opts:
    def __init__(self, additional_properties=False, fall_back_on_default=False, aliaser="id",
                 coerce=False, **_):
        self.additional_properties = additional_properties
        self.fall_back_on_default = fall_back_on_default
        self.aliaser = aliaser
        self.coerce = coerce


STR_TO_BOOL = {}
for _f, _t in (("0", "1"), ("f", "t"), ("n", "y"), ("no", "yes"), ("false", "true"), ("off", "on"), ("ko", "ok")):
    STR_TO_BOOL[_f] = False
    STR_TO_BOOL[_t] = True


class Model:
    def __init__(self, prog: dict, opts: Optional[Opts] = None):
        self.prog = prog
        self.o = opts or Opts()
        self.coerced = 0

    # -- public ---------------------------------------------------------------------
    def deserialize(self, t: dict, d: Any, c: Optional[dict] = None):
        """-> ("ok", canon) | ("err", Err)"""
        v, e = self.des(t, d, c)
        if e:
            return "err", e
        return "ok", v

    # -- coercion (de_serialization.md "Coercion") -------------------------------------
    def _coerce(self, kind: str, d: Any):
        """Returns (datum', ok).  Only primitive -> primitive, per the documented table."""
        if d.__class__ not in JSON_NAMES:
            raise Unspecified("non-JSON datum")
        if kind == "none":
            if d is None:
                return d, True
            if d == "" and isinstance(d, str):
                self.coerced += 1
                return None, True
            return d, False
        if isinstance(d, (list, dict)) or d is None:
            return d, False
        if kind == "bool":
            if isinstance(d, bool):
                return d, True
            if isinstance(d, str):
                if d.lower() in STR_TO_BOOL:
                    self.coerced += 1
                    return STR_TO_BOOL[d.lower()], True
                return d, False
            if isinstance(d, int):
                self.coerced += 1
                return bool(d), True
            return d, False  # float -> bool is not in the table
        if kind == "int":
            if isinstance(d, int) and not isinstance(d, bool):
                return d, True
            if isinstance(d, bool):
                raise Unspecified("bool to int coercion")
            if isinstance(d, float):
                if d != d or d in (float("inf"), float("-inf")):
                    return d, False
                raise Unspecified("float to int coercion (truncation)")
            try:
                r = int(d)
            except ValueError:
                return d, False
            self.coerced += 1
            return r, True
        if kind == "float":
            if isinstance(d, float):
                return d, True
            if isinstance(d, bool):
                raise Unspecified("bool to float coercion")
            if isinstance(d, int):
                return d, True
            try:
                r = float(d)
            except ValueError:
                return d, False
            if r != r or r in (float("inf"), float("-inf")):
                raise Unspecified("nan/inf from string")
            self.coerced += 1
            return r, True
        if kind == "str":
            if isinstance(d, str):
                return d, True
            if isinstance(d, bool):
                return d, False
            self.coerced += 1
            return str(d), True
        return d, False

    # -- core -------------------------------------------------------------------------
    def des(self, t: dict, d: Any, c: Optional[dict] = None) -> Tuple[Any, Optional[Err]]:
        if t["k"] == "tvar":  # a generic class used without arguments: its type variables stand for Any
            t = {"k": "any"}
        k = t["k"]
        if d.__class__ not in JSON_NAMES:
            raise Unspecified("non-JSON datum")
        if k in ("str", "int", "float", "bool", "none"):
            if self.o.coerce:
                d2, ok = self._coerce(k, d)
                if ok:
                    d = d2
                else:
                    return None, Err(fuzzy=True)
            return self._prim(k, d, c)
        if k == "any":
            msgs = check_constraints(c, d)
            if msgs:
                return None, Err(msgs)
            return canon_json(d), None
        if k == "std" and t["t"] == "ver" and t.get("via") == "obj":
            # field-level conversion VerObj <-> Ver (build.PRELUDE): the datum follows the object rules of VerObj
            v, e = self._object(VEROBJ_T, d, c)
            if e:
                return None, e
            return ["std", "ver", f"{v[2]['a'][1]}.{v[2]['b'][1]}"], None
        if k == "std" and t["t"] == "ver":
            raise Unspecified("type with several deserializers")
        if k == "std" and t["t"] == "amount":
            if self.o.coerce:
                raise Unspecified("std type under coercion")
            if (d.__class__ is int or d.__class__ is str):
                msgs = check_constraints(c, d)
                return (None, Err(msgs)) if msgs else (["std", "amount", d], None)
            return None, Err(fuzzy=True)  # both alternatives of Union[int, str] refuse it: messages unspecified
        if k == "std":
            # std_types.py conversions from str (float for Decimal): only the pool of known-valid images is modelled
            want = float if t["t"] == "decimal" else str
            if self.o.coerce:
                raise Unspecified("std type under coercion")
            if d.__class__ is want or (want is float and d.__class__ is int):
                msgs = check_constraints(c, d)  # constraints given from outside apply to the source datum
                if msgs:
                    return None, Err(msgs)
                if d in STD_IMAGES[t["t"]] and d.__class__ is not bool:
                    return ["std", t["t"], float(d) if want is float else d], None
                raise Unspecified("std image outside the modelled pool")
            return None, Err([f"expected type {'number' if want is float else 'string'}, found {jname(d)}"])
        if k == "ann":
            v, e = self.des(t["of"], d, merge_constraints(t.get("c"), c))
            if e is None and t.get("val") and LEAF_VALIDATORS[t["val"]][0](v):
                # validators(...) metadata: run on the deserialized value once the node itself is valid
                return None, Err([LEAF_VALIDATORS[t["val"]][1]])
            return v, e
        if k == "newtype":
            nt = self.prog["newtypes"][t["i"]]
            return self.des(nt["of"], d, merge_constraints(nt.get("c"), c))
        if k == "opt":
            if d is None:
                return ["none"], None
            v, e = self.des(t["of"], d, c)
            if e:
                if self.o.coerce and isinstance(d, str) and d == "":
                    self.coerced += 1
                    return ["none"], None
                e2 = Err(list(e.msgs), e.children, e.fuzzy)
                if t["of"]["k"] in ("none", "opt", "union"):
                    # typing flattens/collapses these (Optional[None] is NoneType): messages unspecified
                    return None, Err(fuzzy=True)
                if self.o.coerce:
                    e2.fuzzy = True
                else:
                    e2.msgs.append(f"expected type null, found {jname(d)}")
                return None, e2
            return v, None
        if k == "union":
            return self._union(t, d, c)
        if k == "unsup":
            raise Unspecified("unsupported outside a union")
        if k in ("list", "set", "frozenset", "vartuple"):
            if not isinstance(d, list):
                if self.o.coerce:
                    return None, Err(fuzzy=True)
                return None, bad_type(d, "array")
            vals, children = [], {}
            for i, x in enumerate(d):
                v, e = self.des(t["of"], x)
                if e:
                    children[i] = e
                vals.append(v)
            msgs = check_constraints(c, d)
            if msgs or children:
                return None, Err(msgs, children)
            if k == "list":
                return ["list", vals], None
            if k == "vartuple":
                return ["tuple", vals], None
            return make_set(k, vals, self.prog), None
        if k == "tuple":
            if not isinstance(d, list):
                if self.o.coerce:
                    return None, Err(fuzzy=True)
                return None, bad_type(d, "array")
            n = len(t["items"])
            if len(d) != n:
                # the length error is certain; whether element errors are also reported is not
                msg = MSG["min_items"].format(n) if len(d) < n else MSG["max_items"].format(n)
                return None, Err([msg], fuzzy=True)
            vals, children = [], {}
            for i, (it, x) in enumerate(zip(t["items"], d)):
                v, e = self.des(it, x)
                if e:
                    children[i] = e
                vals.append(v)
            msgs = check_constraints(c, d)
            if msgs or children:
                return None, Err(msgs, children)
            return ["tuple", vals], None
        if k == "map":
            if not isinstance(d, dict):
                if self.o.coerce:
                    return None, Err(fuzzy=True)
                return None, bad_type(d, "object")
            items, children = [], {}
            for key, x in d.items():
                if not isinstance(key, str):
                    raise Unspecified("non-string key")
                kv, ke = self.des(t["key"], key)
                vv, ve = self.des(t["val"], x)
                if ke and ve:
                    children[key] = Err(fuzzy=True)  # which of the two is reported: unspecified
                elif ke or ve:
                    children[key] = ke or ve
                else:
                    items.append([kv, vv])
            msgs = check_constraints(c, d)
            if msgs or children:
                return None, Err(msgs, children)
            keys = [pykey(i[0], self.prog) for i in items]
            if len(set(keys)) != len(keys):
                raise Unspecified("colliding mapping keys")
            return ["dict", sorted(items, key=_sortkey)], None
        if k == "lit":
            return self._literal(t["values"], d, c)
        if k == "enum":
            e = self.prog["enums"][t["i"]]
            vals = [{"enum": [t["i"], m]} for m, _ in e["members"]]
            return self._literal(vals, d, c)
        if k == "cls":
            return self._object(t, d, c)
        raise Unspecified(f"kind {k}")

    def _prim(self, k: str, d: Any, c: Optional[dict]):
        ok = {
            "str": isinstance(d, str),
            "int": isinstance(d, int) and not isinstance(d, bool),
            "float": isinstance(d, (int, float)) and not isinstance(d, bool),
            "bool": isinstance(d, bool),
            "none": d is None,
        }[k]
        if not ok:
            name = {"str": "string", "int": "integer", "float": "number", "bool": "boolean", "none": "null"}[k]
            return None, bad_type(d, name)
        msgs = check_constraints(c, d)
        if msgs:
            return None, Err(msgs)
        if k == "float":
            if isinstance(d, int) and abs(d) > 2 ** 53:
                raise Unspecified("huge int to float")
            return ["float", float(d)], None
        if k == "none":
            return ["none"], None
        return [k, d], None

    def lit_value(self, v: Any):
        """(json value, canon) of a literal entry."""
        if isinstance(v, dict) and "enum" in v:
            e = self.prog["enums"][v["enum"][0]]
            val = dict((m, x) for m, x in e["members"])[v["enum"][1]]
            return val, ["enum", e["name"], v["enum"][1]]
        return v, canon_json(v)

    def _literal(self, values: List[Any], d: Any, c):
        pairs = [self.lit_value(v) for v in values]
        jvals = [p[0] for p in pairs]
        if isinstance(d, (list, dict)):
            return None, Err(fuzzy=True)
        for jv, cv in pairs:
            if jv.__class__ is d.__class__ and jv == d:
                return cv, None
        # python-equal values of another JSON class (True/1, 1/1.0): by value, classes distinct
        for jv in jvals:
            if jv == d and jv.__class__ is not d.__class__:
                if {jv.__class__, d.__class__} == {int, float}:
                    raise Unspecified("integer-valued float against int literal")
                # bool vs number: data_model.md keeps bool distinct from numbers -> rejected
        if self.o.coerce:
            for jv, cv in pairs:
                try:
                    d2, ok = self._coerce(JSON2KIND[jv.__class__], d)
                except Unspecified:
                    raise
                if ok and d2.__class__ is jv.__class__ and d2 == jv:
                    raise Unspecified("coercion towards literal values")
            return None, Err(fuzzy=True)
        # message: the list of values as Python prints it (settings.errors.one_of)
        seen = []
        for jv in jvals:
            if not any(jv == s for s in seen):  # dict(zip(...)) collapses python-equal keys
                seen.append(jv)
        if len(seen) != len(jvals):
            return None, Err(fuzzy=True)
        return None, Err([f"not one of {seen} (oneOf)"])

    def _union(self, t: dict, d: Any, c):
        alts = [a for a in t["alts"] if a["k"] not in ("unsup", "undefined")]
        if not alts:
            raise Unspecified("union of unsupported only")
        accepted = []
        for a in alts:
            v, e = self.des(a, d, c)
            if not e:
                accepted.append(v)
        if not accepted:
            return None, Err(fuzzy=True)
        first = accepted[0]
        for other in accepted[1:]:
            if other != first and pykey(other, self.prog) == pykey(first, self.prog) and (first[0] in ("int", "float", "bool", "enum") or other[0] == "enum"):
                # e.g. Union[float, int] given 1: both accept, values are ==; which class is
                # returned is left open here and decided by C13's differential oracle
                raise Unspecified("numerically equal alternatives of different classes")
        return first, None

    # -- objects ----------------------------------------------------------------------
    def field_type(self, f: dict) -> dict:
        t = f["t"]
        if f.get("none_as_undefined"):
            t = remove_none(t)
        if f.get("fconv"):
            t = fconv_type(t)
        return t

    def _object(self, t: dict, d: Any, c) -> Tuple[Any, Optional[Err]]:
        cd = t["cd"] if "cd" in t else self.prog["classes"][t["i"]]
        if cd is None:
            raise Unspecified("class under construction")
        if t.get("args"):
            cd = specialize(cd, t["args"])
        if not isinstance(d, dict):
            if self.o.coerce:
                return None, Err(fuzzy=True)
            return None, bad_type(d, "object")
        for key in d:
            if not isinstance(key, str):
                raise Unspecified("non-string key")
        err = Err(check_constraints(c, d))
        values: Dict[str, Any] = {}
        present: List[str] = []
        self._object_fields(cd, d, err, values, present, top=True)
        # validation.md: a validator runs when the fields it reads are all valid (on the partially built object when other
        # fields are in error) and is skipped when all of them are left to their defaults; its errors are merged
        for v in cd.get("validators") or []:
            got = values.get(v["field"])
            if isinstance(got, list) and len(got) == 2 and ((got[0] in ("int", "float") and v["bad"] == 13 and got[1] == 13)
                                                             or (got[0] == "str" and v["bad"] == "abc" and got[1] == "abc")):
                err.merge(Err([v["name"]]))
        if err:
            return None, err
        return self._construct(cd, values, d), None

    def _object_fields(self, cd: dict, d: dict, err: Err, values: dict, present: list, top: bool):
        dyn = self.o.aliaser
        fields = des_fields(cd)
        normal = [f for f in fields if f.get("agg") is None]
        names = {f["n"]: ext_name(f, cd, dyn) for f in normal}
        all_aliases = set(names.values())
        dep = cd.get("dep_req") or {}
        requiring: Dict[str, set] = {}
        for f_, reqs in dep.items():
            for r in reqs:
                requiring.setdefault(r, set()).add(names[f_])
        for f in normal:
            key = names[f["n"]]
            req = is_required(f, cd)
            fb = (f.get("fall_back") or self.o.fall_back_on_default) and not req
            if key in d:
                v, e = self.des(self.field_type(f), d[key], f.get("c"))
                if e:
                    if not fb:
                        err.merge(Err(children={key: e}))
                    else:
                        pass  # default used
                else:
                    values[f["n"]] = v
                    present.append(f["n"])
            elif req:
                err.merge(Err(children={key: Err([TEXT["missing"]])}))
            elif requiring.get(f["n"]) and any(r in d for r in requiring[f["n"]]):
                by = sorted(r for r in requiring[f["n"]] if r in d)
                err.merge(Err(children={key: Err([TEXT["missing"] + f" (required by {by})"])}))
        remain = [k for k in d if k not in all_aliases]
        for f in fields:
            if f.get("agg") == "flatten":
                sub_cd = self.prog["classes"][strip(f["t"], self.prog)["i"]]
                sub_names = set(flat_names(self.prog, sub_cd, dyn))
                sub_d = {k: d[k] for k in d if k in sub_names}
                remain = [k for k in remain if k not in sub_d]
                v, e = self.des(f["t"], sub_d, f.get("c"))
                req = is_required(f, cd)
                fb = (f.get("fall_back") or self.o.fall_back_on_default) and not req
                if e:
                    if not fb:
                        err.merge(e)
                else:
                    values[f["n"]] = v
                    present.append(f["n"])
        for f in fields:
            agg = f.get("agg")
            if isinstance(agg, dict):
                pat = agg["pattern"]
                matched = {k: d[k] for k in remain if re.match(pat, k)}
                remain = [k for k in remain if k not in matched]
                self._agg_map(f, cd, matched, err, values, present)
        add = next((f for f in fields if f.get("agg") == "additional"), None)
        if add is not None:
            self._agg_map(add, cd, {k: d[k] for k in remain}, err, values, present)
        elif remain:
            if not self.o.additional_properties:
                for k in remain:
                    err.merge(Err(children={k: Err([TEXT["unexpected"]])}))
            elif cd["flavor"] == "typeddict":
                for k in remain:
                    values[k] = canon_json(d[k])
                    present.append(k)

    def _agg_map(self, f, cd, sub: dict, err: Err, values, present):
        v, e = self.des(f["t"], sub, f.get("c"))
        req = is_required(f, cd)
        fb = (f.get("fall_back") or self.o.fall_back_on_default) and not req
        if e:
            if not fb:
                err.merge(e)
        else:
            values[f["n"]] = v
            present.append(f["n"])

    def _construct(self, cd: dict, values: dict, d: dict):
        if cd["flavor"] == "typeddict":
            return ["tdict", dict(values)]
        out = {}
        for f in cd["fields"]:
            kind = f.get("kind", "normal")
            n = f["n"]
            if kind == "initvar":
                continue
            if f.get("from_initvar"):
                iv = f["from_initvar"]
                ivf = next(x for x in cd["fields"] if x["n"] == iv)
                out[n] = values[iv] if iv in values else ivf["default"]["c"]
                continue
            if n in values:
                out[n] = values[n]
            else:
                if f.get("default") is None:
                    raise Unspecified("no default for absent field")
                out[n] = f["default"]["c"]
        return ["obj", cd["name"], out]


JSON2KIND = {type(None): "none", bool: "bool", int: "int", float: "float", str: "str"}


def union_alts(t: dict) -> list:
    """Alternatives of a (nested) Optional/Union as `typing` flattens them."""
    if t["k"] == "opt":
        return union_alts(t["of"]) + [{"k": "none"}]
    if t["k"] == "union":
        out = []
        for a in t["alts"]:
            out += union_alts(a)
        return out
    return [t]


def remove_none(t: dict) -> dict:
    if t["k"] not in ("opt", "union"):
        return t
    alts = [a for a in union_alts(t) if a["k"] != "none"]
    if not alts:
        return t
    if len(alts) == 1:
        return alts[0]
    return {"k": "union", "alts": alts}


def specialize(cd: dict, args: List[dict]) -> dict:
    """Substitute type variables of a generic class."""
    params = cd.get("params") or []
    sub = dict(zip(params, args))

    def rec(t):
        if t["k"] == "tvar":
            return sub.get(t["name"], {"k": "any"})
        out = dict(t)
        for key in ("of", "key", "val"):
            if key in out and isinstance(out[key], dict):
                out[key] = rec(out[key])
        for key in ("alts", "items", "args"):
            if key in out:
                out[key] = [rec(x) for x in out[key]]
        return out

    cd2 = dict(cd)
    cd2["fields"] = [dict(f, t=rec(f["t"])) for f in cd["fields"]]
    if cd.get("methods"):
        cd2["methods"] = [dict(m, ret=rec(m["ret"])) for m in cd["methods"]]
    return cd2


# ---------------------------------------------------------------------------------------
# serialization (de_serialization.md "Serialization", data_model.md; DESIGN Appendix A)
# ---------------------------------------------------------------------------------------

class Unordered(list):
    """JSON array whose order is not specified (image of a set)."""


class UnorderedDict(dict):
    """JSON object whose key order is not specified (image of a Mapping, canon sorts its items)."""


class SerOpts:
    def __init__(self, aliaser="id", exclude_none=False, exclude_defaults=False, exclude_unset=True,
                 additional_properties=False, **_):
        self.aliaser = aliaser
        self.exclude_none = exclude_none
        self.exclude_defaults = exclude_defaults
        self.exclude_unset = exclude_unset
        self.additional_properties = additional_properties


class Mismatch(Exception):
    """The value is not a value of the type (used for union alternative selection)."""


ABC_OF = {
    "list": {"List", "list", "MutableSequence", "Sequence", "Collection"},
    "tuple": {"Tuple", "tuple", "Sequence", "Collection"},
    "set": {"Set", "set", "MutableSet", "AbstractSet", "Collection"},
    "frozenset": {"FrozenSet", "frozenset", "AbstractSet", "Collection"},
    "dict": {"Dict", "dict", "MutableMapping", "Mapping", "Collection"},
    "str": {"Sequence", "Collection"},
}

PRED = {"is_none": lambda c, prog=None: c[0] == "none",
        "falsy": lambda c, prog=None: not truth(c, prog),
        "truthy": lambda c, prog=None: truth(c, prog)}


def truth(c, prog=None) -> bool:
    tag = c[0]
    if tag == "enum" and prog is not None:
        e = next(e for e in prog["enums"] if e["name"] == c[1])
        if e.get("base", "plain") in ("int", "str"):  # mixin enums have the truthiness of their value
            return bool(dict((m, x) for m, x in e["members"])[c[2]])
        return True
    if tag in ("none", "undef"):
        return False
    if tag in ("bool", "int", "float", "str"):
        return bool(c[1])
    if tag in ("list", "tuple", "set", "frozenset", "dict"):
        return bool(c[1])
    if tag == "tdict":
        return bool(c[1])
    if tag == "enum":
        return True  # plain Enum members are truthy; mixin enums are avoided with 'falsy' predicates
    if tag == "obj":
        if prog is not None:
            cd = next((c_ for c_ in prog["classes"] if c_ and c_["name"] == c[1]), None)
            if cd is not None and cd["flavor"] == "namedtuple":
                return bool(c[2])  # a NamedTuple is a tuple: one without fields is empty, hence falsy
        return True
    raise Unspecified("truthiness")


def py_equal(a, b) -> bool:
    """Python `==` between the values described by two canons (numbers compare by value)."""
    ta, tb = a[0], b[0]
    num = ("bool", "int", "float")
    if ta in num and tb in num:
        return a[1] == b[1]
    if ta != tb:
        if {ta, tb} == {"set", "frozenset"}:
            return _mset(a[1]) == _mset(b[1])
        return False
    if ta in ("list", "tuple"):
        return len(a[1]) == len(b[1]) and all(py_equal(x, y) for x, y in zip(a[1], b[1]))
    if ta in ("set", "frozenset"):
        return _mset(a[1]) == _mset(b[1])
    if ta == "dict":
        return len(a[1]) == len(b[1]) and all(any(py_equal(k1, k2) and py_equal(v1, v2) for k2, v2 in b[1]) for k1, v1 in a[1])
    if ta == "tdict":
        return a[1].keys() == b[1].keys() and all(py_equal(a[1][k], b[1][k]) for k in a[1])
    if ta == "obj":
        return a[1] == b[1] and a[2].keys() == b[2].keys() and all(py_equal(a[2][k], b[2][k]) for k in a[2])
    return a == b


def _mset(items):
    return sorted(repr(pykey(x)) for x in items)


def class_matches(prog: dict, t: dict, v) -> bool:
    """isinstance(value, expected_class(alternative)) of union serialization."""
    t0 = t
    while t0["k"] in ("ann", "newtype"):
        t0 = t0["of"] if t0["k"] == "ann" else prog["newtypes"][t0["i"]]["of"]
    k, tag = t0["k"], v[0]
    if k in ("any", "tvar"):
        return True
    if k == "std":
        if tag == "std" and t0["t"] == "date" and v[1] == "datetime":
            # datetime is a subclass of date: the date alternative serves it (and drops the time); not modelled
            raise Unspecified("a datetime value meets a date alternative")
        return tag == "std" and v[1] == t0["t"]
    if k == "none":
        return tag == "none"
    if k == "bool":
        return tag == "bool"
    if k == "int":
        return tag in ("int", "bool") or (tag == "enum" and _enum_base(prog, v[1]) == "int")
    if k == "float":
        return tag == "float"
    if k == "str":
        return tag == "str" or (tag == "enum" and _enum_base(prog, v[1]) == "str")
    if k in ("list", "set", "frozenset", "map"):
        runtime = {"list": "list", "tuple": "tuple", "set": "set", "frozenset": "frozenset", "dict": "dict", "tdict": "dict",
                   "str": "str"}.get(tag)
        if runtime is None:
            if tag == "std" and v[1] == "bytes":
                runtime = "str"  # bytes, like str, is a Sequence / Collection for isinstance
            elif tag == "enum" and _enum_base(prog, v[1]) == "str":
                runtime = "str"
            elif tag == "obj" and _flavor(prog, v[1]) == "namedtuple":
                runtime = "tuple"
            else:
                return False
        return t0["sp"] in ABC_OF[runtime]
    if k in ("tuple", "vartuple"):
        return tag == "tuple" or (tag == "obj" and _flavor(prog, v[1]) == "namedtuple")
    if k == "enum":
        return tag == "enum" and v[1] == prog["enums"][t0["i"]]["name"]
    if k == "cls":
        cd = prog["classes"][t0["i"]]
        if cd["flavor"] == "typeddict":
            return tag in ("tdict", "dict")
        return tag == "obj" and v[1] == cd["name"]
    if k in ("opt", "union"):
        return any(class_matches(prog, a, v) for a in union_alts(t0))
    if k == "lit":
        raise Unspecified("Literal is not supported in union serialization")
    return False


def _enum_base(prog, name):
    return next(e for e in prog["enums"] if e["name"] == name).get("base", "plain")


def _flavor(prog, name):
    return next(c for c in prog["classes"] if c["name"] == name)["flavor"]


def _ser(self, t: dict, v, top=False):
    """-> JSON image.  Raises Mismatch when v is not a value of t."""
    if t["k"] == "tvar":
        t = {"k": "any"}
    k, tag = t["k"], v[0]
    prog = self.prog
    if k == "any":
        return self.ser_any(v)
    if k in ("ann",):
        return self.ser(t["of"], v)
    if k == "newtype":
        return self.ser(prog["newtypes"][t["i"]]["of"], v)
    if k == "std":
        if tag != "std" or v[1] != t["t"]:
            raise Mismatch
        if t.get("via") == "obj":
            a, b_ = v[2].split(".")
            return self.ser_object(VEROBJ_T, ["obj", "VerObj", {"a": ["int", int(a)], "b": ["int", int(b_)]}])
        return v[2]
    if k == "none":
        if tag != "none":
            raise Mismatch
        return None
    if k in ("bool", "int", "float", "str"):
        if tag == "enum" and _enum_base(prog, v[1]) in ("int", "str"):
            e = next(e for e in prog["enums"] if e["name"] == v[1])
            val = dict((m, x) for m, x in e["members"])[v[2]]
            if (k == "int" and isinstance(val, int)) or (k == "str" and isinstance(val, str)):
                return val
            raise Mismatch
        ok = {"bool": tag == "bool", "int": tag in ("int", "bool"), "float": tag == "float", "str": tag == "str"}[k]
        if not ok:
            raise Mismatch
        return v[1]
    if k in ("opt", "union"):
        alts = [a for a in union_alts(t) if a["k"] not in ("unsup", "undefined")]
        if tag == "undef":
            raise Mismatch
        cands = [a for a in alts if class_matches(prog, a, v)]
        if not cands:
            raise Mismatch
        try:
            return self.ser(cands[0], v)
        except Mismatch:
            if len(cands) > 1:
                raise Unspecified("value does not fit the first class-matching alternative")
            raise
    if k in ("list", "set", "frozenset", "vartuple"):
        if tag not in ("list", "tuple", "set", "frozenset"):
            raise Mismatch
        items = [self.ser(t["of"], x) for x in v[1]]
        return Unordered(items) if tag in ("set", "frozenset") else items
    if k == "tuple":
        if tag != "tuple" or len(v[1]) != len(t["items"]):
            raise Mismatch
        return [self.ser(it, x) for it, x in zip(t["items"], v[1])]
    if k == "map":
        if tag == "tdict":
            v = ["dict", [[["str", kk], vv] for kk, vv in v[1].items()]]
            tag = "dict"
        if tag != "dict":
            raise Mismatch
        out = UnorderedDict()
        for kc, vc in v[1]:
            key = self.ser(t["key"], kc)
            if not isinstance(key, str):
                raise Unspecified("non-string serialized key")
            out[key] = self.ser(t["val"], vc)
        return out
    if k == "lit":
        for lv in t["values"]:
            jv, cv = self.lit_value(lv)
            if cv == v:
                return jv
        raise Mismatch
    if k == "enum":
        e = prog["enums"][t["i"]]
        if tag != "enum" or v[1] != e["name"]:
            raise Mismatch
        return dict((m, x) for m, x in e["members"])[v[2]]
    if k == "cls":
        return self.ser_object(t, v)
    if k in ("unsup", "undefined"):
        raise Mismatch
    raise Unspecified(f"kind {k}")


def _ser_any(self, v):
    """Any: serialized by runtime class (de_serialization.md "Serialization": type defaults to Any)."""
    tag = v[0]
    prog = self.prog
    if tag == "none":
        return None
    if tag in ("bool", "int", "float", "str"):
        return v[1]
    if tag == "undef":
        raise Unspecified("Undefined outside a field")
    if tag in ("list", "tuple"):
        return [self.ser_any(x) for x in v[1]]
    if tag in ("set", "frozenset"):
        return Unordered(self.ser_any(x) for x in v[1])
    if tag == "dict":
        out = UnorderedDict()
        for kc, vc in v[1]:
            key = self.ser_any(kc)
            if not isinstance(key, str):
                raise Unspecified("non-string serialized key")
            out[key] = self.ser_any(vc)
        return out
    if tag == "tdict":
        return {kk: self.ser_any(vv) for kk, vv in v[1].items()}
    if tag == "enum":
        e = next(e for e in prog["enums"] if e["name"] == v[1])
        return dict((m, x) for m, x in e["members"])[v[2]]
    if tag == "obj":
        i = next(i for i, c in enumerate(prog["classes"]) if c["name"] == v[1])
        return self.ser_object({"k": "cls", "i": i}, v)
    raise Unspecified(f"any value {tag}")


def _ser_object(self, t: dict, v):
    prog, o = self.prog, self.so
    cd = t["cd"] if "cd" in t else prog["classes"][t["i"]]
    if t.get("args"):
        cd = specialize(cd, t["args"])
    td = cd["flavor"] == "typeddict"
    if td:
        if v[0] not in ("tdict", "dict"):
            raise Mismatch
        # a plain dict served by a TypedDict alternative: only its string keys can be properties
        # (members of a str-mixin Enum are strings)
        if v[0] == "tdict":
            vals = v[1]
        else:
            vals = {}
            for kc, vc in v[1]:
                if kc[0] == "str":
                    vals[kc[1]] = vc
                elif kc[0] == "enum" and _enum_base(prog, kc[1]) == "str":
                    e_ = next(e for e in prog["enums"] if e["name"] == kc[1])
                    vals[dict((m_, x) for m_, x in e_["members"])[kc[2]]] = vc
    else:
        if v[0] != "obj" or v[1] != cd["name"]:
            raise Mismatch
        vals = v[2]
    out: Dict[str, Any] = {}
    for f in ser_fields(cd):
        n = f["n"]
        if td:
            if n not in vals:
                if is_required(f, cd):
                    raise Mismatch
                continue
        elif n not in vals:
            raise Mismatch
        val = vals[n]
        sk = f.get("skip") or {}
        ftype = f["t"]
        # a `required` field is always emitted (its default only serves construction)
        has_default = f.get("default") is not None and not td and not f.get("required")
        if val[0] == "undef":
            continue
        if sk.get("ser_if") and PRED[sk["ser_if"]](val, prog):
            continue
        if has_default and (sk.get("ser_default") or o.exclude_defaults) and py_equal(val, f["default"]["c"]):
            continue
        if f.get("none_as_undefined") and val[0] == "none":
            continue
        if o.exclude_none and val[0] == "none":
            ft_ = ftype
            while ft_["k"] == "ann":
                ft_ = ft_["of"]
            alts = union_alts(ft_) if ft_["k"] in ("opt", "union") else [ft_]
            if any(a["k"] == "none" for a in alts) and any(a["k"] != "none" for a in alts):
                continue
            raise Unspecified("exclude_none on a non-Optional field holding None")
        agg = f.get("agg")
        ft = remove_none(ftype) if f.get("none_as_undefined") else ftype
        if f.get("fconv"):
            ft = fconv_type(ft)
        if agg is None:
            out[ext_name(f, cd, o.aliaser)] = self.ser(ft, val)
        else:
            sub = self.ser(ft, val)
            if not isinstance(sub, dict):
                raise Unspecified("aggregate field image is not an object")
            if isinstance(sub, UnorderedDict) and not isinstance(out, UnorderedDict):
                out = UnorderedDict(out)  # keys merged from a mapping have no specified order
            for kk, vv in sub.items():
                out[kk] = vv
    for m in (cd.get("methods") or []) if not td else []:
        # serialized methods / properties: after the fields, under aliaser(alias or name); an Undefined result is
        # omitted, a None result too under exclude_none when the return type is Optional
        res = m["value"] if m["kind"] == "const" else vals.get(m["field"])
        if res is None:
            raise Mismatch
        rt = m["ret"]
        while rt["k"] == "ann":  # is_union_of looks through Annotated
            rt = rt["of"]
        ralts = union_alts(rt) if rt["k"] in ("opt", "union") else [rt]
        if res[0] == "undef":
            if any(a["k"] == "undefined" for a in ralts):
                continue
            raise Unspecified("Undefined returned by a method whose return type does not allow it")
        if o.exclude_none and res[0] == "none" and any(a["k"] == "none" for a in ralts):
            continue
        out[ALIASERS[o.aliaser](m.get("alias") or m["n"])] = self.ser(m["ret"], res)
    if td and o.additional_properties:
        names = {f["n"] for f in cd["fields"]}
        for kk, vv in vals.items():
            if kk not in names and kk not in out:
                if not isinstance(out, UnorderedDict):
                    out = UnorderedDict(out)  # undeclared keys come in the order of the value's dict (deserialize fills it from a set)
                out[kk] = self.ser_any(vv)
    return out


def _serialize(self, t: dict, v, sopts: Optional[SerOpts] = None):
    self.so = sopts or SerOpts()
    return self.ser(t, v)


Model.ser = _ser
Model.ser_any = _ser_any
Model.ser_object = _ser_object
Model.serialize = _serialize


def json_eq(expected, got) -> bool:
    """Equality of JSON images; Unordered lists compare as multisets; containers type-exact."""
    if isinstance(expected, Unordered):
        if got.__class__ is not list or len(got) != len(expected):
            return False
        rest = list(got)
        for e in expected:
            for i, g in enumerate(rest):
                if json_eq(e, g):
                    del rest[i]
                    break
            else:
                return False
        return True
    if isinstance(expected, list):
        return got.__class__ is list and len(got) == len(expected) and all(json_eq(e, g) for e, g in zip(expected, got))
    if isinstance(expected, UnorderedDict):
        return got.__class__ is dict and set(expected) == set(got) and all(json_eq(expected[k], got[k]) for k in expected)
    if isinstance(expected, dict):
        return got.__class__ is dict and list(expected) == list(got) and all(json_eq(expected[k], got[k]) for k in expected)
    if isinstance(expected, bool) or isinstance(got, bool):
        return isinstance(expected, bool) and isinstance(got, bool) and expected == got
    if isinstance(expected, float) or isinstance(got, float):
        return isinstance(expected, float) and isinstance(got, float) and (expected == got or (expected != expected and got != got))
    return expected == got and isinstance(got, type(expected))


def plain(x):
    """Unordered -> list (for printing)."""
    if isinstance(x, list):
        return [plain(y) for y in x]
    if isinstance(x, dict):
        return {k: plain(v) for k, v in x.items()}
    return x


_FIRST_MATCH = [False]


def conforms_first_match(prog: dict, t: dict, v) -> bool:
    """conforms(), every union being read as 'the first alternative whose class matches the value'."""
    _FIRST_MATCH[0] = True
    try:
        return conforms(prog, t, v)
    finally:
        _FIRST_MATCH[0] = False


def conforms(prog: dict, t: dict, v, c: Optional[dict] = None, depth: int = 0) -> bool:
    """Is the typed value v (canon) a value of t, constraints included?  (Used to keep generated
    values inside the domain "value v of T" of the serialization properties.)"""
    if depth > 40:
        return True
    if t["k"] == "tvar":
        t = {"k": "any"}
    k, tag = t["k"], v[0]
    if k == "ann":
        if t.get("val") and LEAF_VALIDATORS[t["val"]][0](v):
            return False
        try:
            return conforms(prog, t["of"], v, merge_constraints(t["c"], c), depth + 1)
        except Unspecified:
            return False
    if k == "newtype":
        nt = prog["newtypes"][t["i"]]
        try:
            return conforms(prog, nt["of"], v, merge_constraints(nt.get("c"), c), depth + 1)
        except Unspecified:
            return False
    if k == "any":
        return tag != "undef"
    if k == "std":
        if tag != "std" or v[1] != t["t"]:
            return False
        try:
            return not check_constraints(c, v[2])  # constraints bear on the JSON image
        except Unspecified:
            return False
    if k in ("opt", "union"):
        if _FIRST_MATCH[0]:
            # operational reading: union serialization serves the FIRST alternative whose class matches; the value
            # is well-typed for the call only if it conforms to that one (a dict that is not a valid TypedDict C
            # in Union[C, Any] is served by C without check_type and by Any with it)
            for a in union_alts(t):
                if a["k"] in ("unsup",):
                    continue
                try:
                    hit = class_matches(prog, a, v)
                except Unspecified:
                    return False
                if hit:
                    return conforms(prog, a, v, c, depth + 1)
            return False
        return any(conforms(prog, a, v, c, depth + 1) for a in union_alts(t) if a["k"] not in ("unsup",))
    if k == "undefined":
        return tag == "undef"
    if k == "none":
        return tag == "none"
    if k in ("bool", "int", "float", "str"):
        if tag != k:
            return False
        try:
            return not check_constraints(c, v[1])
        except Unspecified:
            return False
    if k in ("list", "set", "frozenset", "vartuple"):
        want = {"list": "list", "set": "set", "frozenset": "frozenset", "vartuple": "tuple"}[k]
        if tag != want:
            return False
        if c:
            if c.get("min_items") is not None and len(v[1]) < c["min_items"]:
                return False
            if c.get("max_items") is not None and len(v[1]) > c["max_items"]:
                return False
            if c.get("unique") and len({_imgkey(x, prog) for x in v[1]}) != len(v[1]):
                return False
        return all(conforms(prog, t["of"], x, None, depth + 1) for x in v[1])
    if k == "tuple":
        if tag != "tuple":
            return False
        if c and c.get("unique") and len({_imgkey(x, prog) for x in v[1]}) != len(v[1]):
            return False
        return tag == "tuple" and len(v[1]) == len(t["items"]) and all(conforms(prog, it, x, None, depth + 1) for it, x in zip(t["items"], v[1]))
    if k == "map":
        if tag != "dict":
            return False
        if c:
            if c.get("min_props") is not None and len(v[1]) < c["min_props"]:
                return False
            if c.get("max_props") is not None and len(v[1]) > c["max_props"]:
                return False
        return all(conforms(prog, t["key"], kk, None, depth + 1) and conforms(prog, t["val"], vv, None, depth + 1) for kk, vv in v[1])
    if k == "lit":
        m = Model(prog)
        return any(m.lit_value(x)[1] == v for x in t["values"])
    if k == "enum":
        return tag == "enum" and v[1] == prog["enums"][t["i"]]["name"]
    if k == "cls":
        cd = prog["classes"][t["i"]]
        if t.get("args"):
            cd = specialize(cd, t["args"])
        if cd["flavor"] == "typeddict":
            if tag != "tdict":
                return False
            vals = v[1]
            for f in cd["fields"]:
                if f["n"] in vals:
                    if not conforms(prog, f["t"], vals[f["n"]], f.get("c"), depth + 1):
                        return False
                elif is_required(f, cd):
                    return False
            return True
        if tag != "obj" or v[1] != cd["name"]:
            return False
        for f in cd["fields"]:
            if f.get("kind") == "initvar" or f.get("from_initvar"):
                continue
            if f["n"] not in v[2]:
                return False
            fv = v[2][f["n"]]
            if fv[0] == "undef":
                if not any(a["k"] == "undefined" for a in (union_alts(f["t"]) if f["t"]["k"] in ("opt", "union") else [f["t"]])):
                    return False
                continue
            if f.get("none_as_undefined") and fv[0] == "none":
                continue
            if not conforms(prog, f["t"], fv, f.get("c"), depth + 1):
                return False
            agg = f.get("agg")
            if isinstance(agg, dict) and fv[0] == "dict":
                if any(re.match(agg["pattern"], kk[1]) is None for kk, _ in fv[1]):
                    return False
        return True
    return False
