"""Runner shared by all property checks: seeds, tiers, process sharding, buckets,
known findings, shrinking, replay files, evidence.

A property module (props/cXX.py) provides

    ID, TITLE, RULE                      strings
    ASSUMPTIONS                          list[str]            (optional)
    BUDGET = {"quick": n, "thorough": n} Hypothesis examples *per shard*
    SHARDS = {"quick": k, "thorough": k} worker processes      (optional, default 8 / 16)
    MIN_NONTRIVIAL = {"quick": n, ...}   vacuity guard         (optional)
    strategy(tier) -> SearchStrategy     cases are JSON-able dicts  (optional)
    evaluate(case, ctx) -> None          runs one case and *records* into ctx, never raises
                                         for a violation of the property
    enumerate_cases(tier) -> iterable    bounded-exhaustive part (optional); sharded by index
    extra(tier, ctx, shard, nshards)     custom phase (state machines, fuzzing)  (optional)
    finalize(coverage: dict, tier)       add keys to the coverage block (optional)
"""
from __future__ import annotations

import argparse
import copy
import hashlib
import importlib
import json
import multiprocessing
import os
import sys
import time
import traceback
from collections import Counter
from concurrent.futures import ProcessPoolExecutor
from typing import Any, Dict, List, Optional

VERIF = os.path.dirname(os.path.dirname(os.path.abspath(__file__)))
ALL_IDS = ["C%02d" % i for i in range(1, 21)]
MAX_SAMPLES = 6
WALL_LIMIT = {"quick": 600.0, "thorough": 3000.0}


class HarnessError(Exception):
    """Something is wrong with the check itself (generator, model, environment)."""


def jhash(obj: Any) -> str:
    return hashlib.blake2b(
        json.dumps(obj, sort_keys=True, default=repr).encode(), digest_size=8
    ).hexdigest()


def sig_key(sig: Dict[str, Any]) -> str:
    return json.dumps(sig, sort_keys=True, default=repr)


class Ctx:
    """Collector handed to evaluate(); one per shard."""

    def __init__(self, prop: str, tier: str, seed: int, shard: int = 0, nshards: int = 1):
        self.prop = prop
        self.tier = tier
        self.seed = seed
        self.shard = shard
        self.nshards = nshards
        self.evaluations = 0
        self.nontrivial: set = set()
        self.samples: List[Any] = []
        self.hist: Counter = Counter()
        self.buckets: Dict[str, Dict[str, Any]] = {}
        self.deadline = float("inf")
        self.budget_hit = False
        self.phase = "hypothesis"
        self._sample_every = 1
        self._sample_seen = 0

    # -- counters -------------------------------------------------------------------
    def count(self, n: int = 1):
        self.evaluations += n

    def nontriv(self, key: Any):
        self.nontrivial.add(key if isinstance(key, str) and len(key) == 16 else jhash(key))

    def h(self, name: str, n: int = 1):
        self.hist[name] += n

    def sample(self, obj: Any):
        """Keep a few samples, spread over the run (reservoir-ish, deterministic)."""
        self._sample_seen += 1
        if len(self.samples) < MAX_SAMPLES:
            self.samples.append(copy.deepcopy(obj))
        elif self._sample_seen % (self._sample_every * 97) == 0:
            self.samples[self._sample_seen // 97 % MAX_SAMPLES] = copy.deepcopy(obj)

    def out_of_time(self) -> bool:
        if time.time() > self.deadline:
            self.budget_hit = True
            return True
        return False

    # -- violations -----------------------------------------------------------------
    def violation(self, sig: Dict[str, Any], case: Any, detail: str = ""):
        key = sig_key(sig)
        b = self.buckets.get(key)
        size = len(json.dumps(case, default=repr))
        if b is None:
            self.buckets[key] = {
                "sig": sig, "count": 1, "case": copy.deepcopy(case), "detail": detail[:2000],
                "size": size, "phase": self.phase, "shard": self.shard,
            }
        else:
            b["count"] += 1
            if size < b["size"]:
                b.update(case=copy.deepcopy(case), detail=detail[:2000], size=size,
                         phase=self.phase, shard=self.shard)

    def export(self) -> Dict[str, Any]:
        # everything crossing the process boundary is made plain JSON (generated classes cannot be pickled)
        return json.loads(json.dumps(self._export(), default=repr))

    def _export(self) -> Dict[str, Any]:
        return {
            "evaluations": self.evaluations,
            "nontrivial": sorted(self.nontrivial),
            "samples": self.samples,
            "hist": dict(self.hist),
            "buckets": self.buckets,
            "budget_hit": self.budget_hit,
        }


# ---------------------------------------------------------------------------------------
# known findings
# ---------------------------------------------------------------------------------------

def load_known() -> Dict[str, Any]:
    path = os.path.join(VERIF, "known_findings.json")
    if not os.path.exists(path):
        return {"findings": [], "fixed": []}
    with open(path) as f:
        return json.load(f)


def _match_value(pred: Any, val: Any) -> bool:
    if isinstance(pred, dict) and "any_of" in pred:
        return any(_match_value(p, val) for p in pred["any_of"])
    if isinstance(pred, dict) and "contains" in pred:
        return isinstance(val, (str, list)) and pred["contains"] in val
    return pred == val


def match_known(prop: str, sig: Dict[str, Any], known: Dict[str, Any]) -> Optional[Dict[str, Any]]:
    for f in known.get("findings", []):
        if f.get("property") != prop:
            continue
        m = f.get("match", {})
        if any(sig.get(k) for k in f.get("unless", [])):
            continue
        if all(k in sig and _match_value(v, sig[k]) for k, v in m.items()):
            return f
    return None


# ---------------------------------------------------------------------------------------
# one shard
# ---------------------------------------------------------------------------------------

def _shard_seed(seed: int, shard: int) -> int:
    return int.from_bytes(hashlib.blake2b(f"{seed}:{shard}".encode(), digest_size=4).digest(), "big")


def _periodic_cleanup():
    import apischema.cache
    from apischema.validation import dependencies

    apischema.cache.reset()
    dependencies.cache.clear()


def _hyp_settings(n: int, shrink: bool):
    from hypothesis import HealthCheck, Phase, settings

    return settings(
        max_examples=n, database=None, deadline=None, derandomize=False,
        report_multiple_bugs=False, print_blob=False,
        suppress_health_check=[HealthCheck.too_slow, HealthCheck.data_too_large,
                               HealthCheck.large_base_example],
        phases=[Phase.generate, Phase.shrink] if shrink else [Phase.generate],
    )


class _Found(Exception):
    pass


def hyp_phase(mod, tier: str, ctx: Ctx, n: int, target: Optional[str] = None):
    """Run the Hypothesis-driven part.  With `target` (a bucket key) the same seeded
    generation is repeated, the first case reproducing that signature raises, and the
    library shrinks it; returns the minimal (case, bucket)."""
    from hypothesis import given, seed

    last: Dict[str, Any] = {}
    counter = [0]

    @seed(_shard_seed(ctx.seed, ctx.shard))
    @_hyp_settings(n, target is not None)
    @given(mod.strategy(tier))
    def test(case):
        counter[0] += 1
        if counter[0] % 200 == 0:
            _periodic_cleanup()
        if target is None:
            if ctx.out_of_time():
                return
            mod.evaluate(case, ctx)
        else:
            c2 = Ctx(ctx.prop, tier, ctx.seed, ctx.shard, ctx.nshards)
            mod.evaluate(case, c2)
            if target in c2.buckets:
                last["case"] = copy.deepcopy(case)
                last["bucket"] = c2.buckets[target]
                raise _Found()

    try:
        test()
    except _Found:
        pass
    return last


def run_shard(mod_name: str, tier: str, seed: int, shard: int, nshards: int,
              examples: Optional[int], deadline: float) -> Dict[str, Any]:
    try:
        mod = importlib.import_module(mod_name)
        ctx = Ctx(mod.ID, tier, seed, shard, nshards)
        ctx.deadline = deadline
        # replay tier: saved corpus cases first (every shard would repeat them: shard 0 only)
        if shard == 0:
            ctx.phase = "corpus"
            for name, case in load_corpus(mod.ID):
                mod.evaluate(case, ctx)
        if hasattr(mod, "enumerate_cases"):
            ctx.phase = "enumerate"
            for i, case in enumerate(mod.enumerate_cases(tier)):
                if i % nshards != shard:
                    continue
                if ctx.out_of_time():
                    break
                if i % 500 == 0:
                    _periodic_cleanup()
                mod.evaluate(case, ctx)
        if hasattr(mod, "strategy"):
            ctx.phase = "hypothesis"
            n = examples if examples is not None else mod.BUDGET[tier]
            if n > 0:
                hyp_phase(mod, tier, ctx, n)
        if hasattr(mod, "extra"):
            ctx.phase = "extra"
            mod.extra(tier, ctx, shard, nshards)
        return ctx.export()
    except BaseException:
        return {"error": traceback.format_exc()}


def shrink_bucket(mod_name: str, tier: str, seed: int, shard: int, nshards: int,
                  examples: Optional[int], key: str) -> Dict[str, Any]:
    try:
        mod = importlib.import_module(mod_name)
        ctx = Ctx(mod.ID, tier, seed, shard, nshards)
        n = examples if examples is not None else mod.BUDGET[tier]
        last = hyp_phase(mod, tier, ctx, n, target=key)
        return last
    except BaseException:
        return {"error": traceback.format_exc()}


DEFAULT_FUZZ = {"quick": 0, "thorough": 6000}  # atheris executions per worker (8 workers)


def run_fuzz_workers(prop: str, tier: str, seed: int, workers: int, runs: int) -> List[Dict[str, Any]]:
    """Coverage-guided phase: `workers` fresh interpreters (the package has to be instrumented at import) running
    vlib/fuzz_target.py; their Ctx exports are merged like those of the Hypothesis shards."""
    import subprocess
    import tempfile

    scratch = os.path.join(VERIF, ".scratch")
    os.makedirs(scratch, exist_ok=True)
    outdir = tempfile.mkdtemp(prefix=f"fuzzout_{prop}_", dir=scratch)
    env = dict(os.environ, PYTHONHASHSEED="0", APISCHEMA_VERIF="1")
    procs = []
    for w in range(workers):
        out = os.path.join(outdir, f"w{w}.json")
        log = open(os.path.join(outdir, f"w{w}.log"), "w")
        procs.append((subprocess.Popen([sys.executable, os.path.join(VERIF, "vlib", "fuzz_target.py"), prop, tier, str(seed), str(w), str(runs), out],
                                       stdout=log, stderr=subprocess.STDOUT, env=env, cwd=VERIF), out, log))
    res = []
    for p, out, log in procs:
        try:
            code = p.wait(timeout=WALL_LIMIT[tier])
        except subprocess.TimeoutExpired:
            p.kill()
            code = -9
        log.close()
        if os.path.exists(out):
            with open(out) as f:
                doc = json.load(f)
        else:
            with open(log.name) as f:
                doc = {"error": f"atheris worker exited with status {code} without a result\n" + f.read()[-3000:]}
        if "error" not in doc and not doc.get("final"):
            doc["budget_hit"] = True  # killed or ended early: what it explored still counts, the campaign is marked incomplete
        res.append(doc)
    import shutil

    shutil.rmtree(outdir, ignore_errors=True)
    return res


def load_corpus(prop: str):
    d = os.path.join(VERIF, "corpus", prop)
    if not os.path.isdir(d):
        return
    for name in sorted(os.listdir(d)):
        if name.endswith(".json"):
            with open(os.path.join(d, name)) as f:
                doc = json.load(f)
            yield name, doc.get("case", doc)


# ---------------------------------------------------------------------------------------
# main
# ---------------------------------------------------------------------------------------

def write_replay(prop: str, tier: str, seed: int, bucket: Dict[str, Any], mod) -> str:
    os.makedirs(os.path.join(VERIF, "replays"), exist_ok=True)
    name = f"{prop}-{jhash(bucket['sig'])}.json"
    path = os.path.join("replays", name)
    doc = {
        "property": prop, "tier": tier, "seed": seed, "signature": bucket["sig"],
        "detail": bucket.get("detail", ""), "count": bucket.get("count", 1), "found_by": bucket.get("phase", "?"),
        "case": bucket["case"],
    }
    if hasattr(mod, "describe"):
        try:
            doc["source"] = mod.describe(bucket["case"])
        except Exception:  # description is for the reader only
            doc["source"] = "<could not render>"
    with open(os.path.join(VERIF, path), "w") as f:
        json.dump(doc, f, indent=1, default=repr)
    return path


def write_evidence(mod, tier: str, seed: int, cov: Dict[str, Any], wall: float, violations: int):
    os.makedirs(os.path.join(VERIF, "evidence"), exist_ok=True)
    doc = {
        "property_id": mod.ID, "tier": tier, "seed": seed, "level": "exploration",
        "coverage": cov, "assumptions": list(getattr(mod, "ASSUMPTIONS", [])),
        "wall_s": round(wall, 2), "violations": violations,
    }
    with open(os.path.join(VERIF, "evidence", f"{mod.ID}.json"), "w") as f:
        json.dump(doc, f, indent=1, default=repr)


def report(mod, tier, seed, merged_buckets, known, shrink_fn) -> int:
    """Print KNOWN-FINDING / VIOLATION lines; returns the number of violations."""
    violations = 0
    known_hits: Dict[str, Dict[str, Any]] = {}
    for key, b in sorted(merged_buckets.items()):
        f = match_known(mod.ID, b["sig"], known)
        if f is not None:
            e = known_hits.setdefault(f["id"], {"f": f, "count": 0})
            e["count"] += b["count"]
            continue
        b = shrink_fn(key, b)
        path = write_replay(mod.ID, tier, seed, b, mod)
        print(f"VIOLATION property={mod.ID} replay={path}")
        print(f"  signature: {json.dumps(b['sig'], sort_keys=True, default=repr)}")
        if b.get("detail"):
            print("  detail: " + b["detail"].replace("\n", "\n    ")[:1500])
        violations += 1
    # every listed finding of this property gets its line on the unchanged tree
    for f in known.get("findings", []):
        if f.get("property") == mod.ID:
            n = known_hits.get(f["id"], {}).get("count", 0)
            print(f"KNOWN-FINDING: property={mod.ID} {f['id']}: {f['what']} (absorbed {n} cases this run)")
    return violations, {k: v["count"] for k, v in known_hits.items()}


def main(argv: List[str]) -> int:
    ap = argparse.ArgumentParser()
    ap.add_argument("prop")
    ap.add_argument("--tier", default=os.environ.get("VERIF_TIER") or "quick", choices=["quick", "thorough"])
    ap.add_argument("--replay")
    ap.add_argument("--shards", type=int)
    ap.add_argument("--examples", type=int)
    ap.add_argument("--no-shrink", action="store_true")
    ap.add_argument("--fuzz", type=int, help="atheris executions per worker (0: none; default: the module's FUZZ[tier])")
    args = ap.parse_args(argv)
    prop = args.prop.upper()
    if prop not in ALL_IDS:
        print(f"unknown property {prop}", file=sys.stderr)
        return 2
    try:
        seed = int(os.environ.get("VERIF_SEED") or "1")
    except ValueError:
        seed = 1
    mod_name = f"props.{prop.lower()}"
    mod = importlib.import_module(mod_name)
    known = load_known()
    t0 = time.time()

    if args.replay:
        with open(args.replay if os.path.isabs(args.replay) else os.path.join(VERIF, args.replay)) as f:
            doc = json.load(f)
        case = doc.get("case", doc)
        ctx = Ctx(prop, args.tier, seed)
        ctx.phase = "replay"
        mod.evaluate(case, ctx)
        bad = 0
        for key, b in ctx.buckets.items():
            f_ = match_known(prop, b["sig"], known)
            if f_ is not None:
                print(f"KNOWN-FINDING: property={prop} {f_['id']}: {f_['what']}")
                continue
            print(f"VIOLATION property={prop} replay={args.replay}")
            print(f"  signature: {json.dumps(b['sig'], sort_keys=True, default=repr)}")
            if b.get("detail"):
                print("  detail: " + b["detail"][:1500])
            bad += 1
        if not bad:
            print(f"replay: property {prop} holds on this case")
        return 1 if bad else 0

    nshards = args.shards or getattr(mod, "SHARDS", {}).get(args.tier) or (8 if args.tier == "quick" else 16)
    deadline = t0 + getattr(mod, "WALL", WALL_LIMIT)[args.tier]
    mpctx = multiprocessing.get_context("fork")
    results = []
    if nshards == 1:
        results.append(run_shard(mod_name, args.tier, seed, 0, 1, args.examples, deadline))
    else:
        with ProcessPoolExecutor(max_workers=min(nshards, 16), mp_context=mpctx) as ex:
            futs = [ex.submit(run_shard, mod_name, args.tier, seed, s, nshards, args.examples, deadline)
                    for s in range(nshards)]
            results = [f.result() for f in futs]
    for r in results:
        if "error" in r:
            print("HARNESS ERROR in shard:\n" + r["error"], file=sys.stderr)
            return 2
    fuzz_runs = args.fuzz if args.fuzz is not None else getattr(mod, "FUZZ", DEFAULT_FUZZ if hasattr(mod, "strategy") else {}).get(args.tier, 0)
    fuzz_info = None
    if fuzz_runs and hasattr(mod, "strategy"):
        fres = run_fuzz_workers(prop, args.tier, seed, getattr(mod, "FUZZ_WORKERS", 8), fuzz_runs)
        for r in fres:
            if "error" in r:
                print("HARNESS ERROR in atheris worker:\n" + r["error"], file=sys.stderr)
                return 2
        seen = set()
        for r in results:
            seen.update(r["nontrivial"])
        fuzz_info = {"engine": "atheris (libFuzzer) over Hypothesis fuzz_one_input, branch coverage of the apischema package as feedback",
                     "workers": len(fres), "executions": sum(r.get("atheris_executions", 0) for r in fres),
                     "cases_evaluated": sum(r["hist"].get("atheris:cases", 0) for r in fres),
                     "evaluations": sum(r["evaluations"] for r in fres),
                     "distinct_nontrivial_not_seen_by_hypothesis": len(set().union(*[set(r["nontrivial"]) for r in fres]) - seen)}
        results = results + fres

    evaluations = sum(r["evaluations"] for r in results)
    nontrivial = set()
    hist: Counter = Counter()
    samples: List[Any] = []
    merged: Dict[str, Dict[str, Any]] = {}
    for r in results:
        nontrivial.update(r["nontrivial"])
        hist.update(r["hist"])
        for key, b in r["buckets"].items():
            m = merged.get(key)
            if m is None:
                merged[key] = dict(b)
            else:
                cnt = m["count"] + b["count"]
                if b["size"] < m["size"]:
                    merged[key] = dict(b)
                merged[key]["count"] = cnt
    for i in range(MAX_SAMPLES):  # round-robin over shards
        for r in results:
            if i < len(r["samples"]) and len(samples) < MAX_SAMPLES:
                samples.append(r["samples"][i])
    budget_hit = any(r["budget_hit"] for r in results)

    def shrink_fn(key, b):
        if args.no_shrink or b.get("phase") != "hypothesis" or not hasattr(mod, "strategy"):
            return b
        try:
            with ProcessPoolExecutor(max_workers=1, mp_context=mpctx) as ex:
                last = ex.submit(shrink_bucket, mod_name, args.tier, seed, b["shard"], nshards,
                                 args.examples, key).result(timeout=400)
        except Exception as exc:  # shrinking is best effort
            print(f"  (shrink failed: {exc!r})")
            return b
        if last and "case" in last:
            b2 = dict(b)
            b2["case"] = last["case"]
            b2["detail"] = last["bucket"].get("detail", b.get("detail", ""))
            return b2
        if last and "error" in last:
            print("  (shrink error)\n" + last["error"], file=sys.stderr)
        return b

    violations, absorbed = report(mod, args.tier, seed, merged, known, shrink_fn)
    wall = time.time() - t0
    cov: Dict[str, Any] = {
        "evaluations": evaluations,
        "distinct_nontrivial": len(nontrivial),
        "rule": mod.RULE,
        "samples": samples,
        "class_histogram": dict(sorted(hist.items())),
        "excluded_known": absorbed,
        "shards": nshards,
        "budget_hit": budget_hit,
        "violation_buckets": [b["sig"] for b in merged.values()][:50],
    }
    if fuzz_info:
        cov["coverage_guided"] = fuzz_info
    if hasattr(mod, "finalize"):
        mod.finalize(cov, args.tier)
    write_evidence(mod, args.tier, seed, cov, wall, violations)
    print(f"{prop} {args.tier} seed={seed}: evaluations={evaluations} distinct_nontrivial={len(nontrivial)} "
          f"violations={violations} known_absorbed={sum(absorbed.values())} wall={wall:.1f}s"
          + (" BUDGET-HIT" if budget_hit else ""))
    if violations:
        return 1
    min_nt = getattr(mod, "MIN_NONTRIVIAL", {}).get(args.tier, 2)
    if args.examples is None and len(nontrivial) < min_nt:
        print(f"INCONCLUSIVE: only {len(nontrivial)} distinct non-trivial cases (< {min_nt})", file=sys.stderr)
        return 2
    return 0
