"""Hostile Python data (C03): encoding into JSON-able replay form, decoding, generation,
and type-exact structural snapshots used to detect mutation of the input."""
from __future__ import annotations

import base64
import math
from typing import Any, List

from hypothesis import strategies as st

from vlib.gen import ATOMS, any_json, chance, get_at, paths, pick, set_at


class StrSub(str):
    pass


class IntSub(int):
    pass


class FloatSub(float):
    pass


class DictSub(dict):
    pass


class ListSub(list):
    pass


class Opaque:
    def __repr__(self):
        return "<Opaque>"


class HostileEq:
    """Equal to everything, constant hash."""

    def __eq__(self, other):
        return True

    def __hash__(self):
        return 1

    def __repr__(self):
        return "<HostileEq>"


class Unhashable:
    __hash__ = None  # type: ignore

    def __repr__(self):
        return "<Unhashable>"


HOSTILE_ATOMS: List[Any] = [
    {"$py": "nan"}, {"$py": "inf"}, {"$py": "-inf"}, {"$py": "negzero"},
    {"$py": "bigint", "v": "1" + "0" * 400}, {"$py": "bigint", "v": "-1" + "0" * 400},
    {"$py": "pow10", "n": 5000}, {"$py": "pow10", "n": 5000, "neg": True},  # beyond the int <-> str conversion limit (4300 digits)
    {"$py": "bytes", "v": "YWJj"}, {"$py": "bytes", "v": ""},
    {"$py": "tuple", "v": []}, {"$py": "tuple", "v": [1, "a"]},
    {"$py": "set", "v": [1, 2]}, {"$py": "frozenset", "v": ["a"]},
    {"$py": "strsub", "v": "a"}, {"$py": "strsub", "v": ""}, {"$py": "intsub", "v": 1}, {"$py": "floatsub", "v": 1.5},
    {"$py": "dictsub", "v": {}}, {"$py": "dictsub", "v": {"a": 1}}, {"$py": "listsub", "v": []}, {"$py": "listsub", "v": [1]},
    {"$py": "dict", "items": [[1, "a"], ["b", "c"]]}, {"$py": "dict", "items": [[None, 1]]},
    {"$py": "dict", "items": [[{"$py": "tuple", "v": [1, 2]}, 1]]}, {"$py": "dict", "items": [[1, 1], [2, 2]]},
    {"$py": "dict", "items": [[{"$py": "bytes", "v": "YQ=="}, 1], ["a", "x"]]},
    {"$py": "opaque"}, {"$py": "hostile_eq"}, {"$py": "unhashable"}, {"$py": "type"}, {"$py": "complex"},
    {"$py": "range"}, {"$py": "ellipsis"}, {"$py": "lambda"},
]


def decode(e: Any) -> Any:
    if isinstance(e, list):
        return [decode(x) for x in e]
    if isinstance(e, dict):
        tag = e.get("$py")
        if tag is None:
            return {k: decode(v) for k, v in e.items()}
        if tag == "nan":
            return float("nan")
        if tag == "inf":
            return float("inf")
        if tag == "-inf":
            return float("-inf")
        if tag == "negzero":
            return -0.0
        if tag == "pow10":
            return -(10 ** e["n"]) if e.get("neg") else 10 ** e["n"]
        if tag == "bigint":
            return int(e["v"])
        if tag == "bytes":
            return base64.b64decode(e["v"])
        if tag == "tuple":
            return tuple(decode(x) for x in e["v"])
        if tag == "set":
            return set(decode(x) for x in e["v"])
        if tag == "frozenset":
            return frozenset(decode(x) for x in e["v"])
        if tag == "strsub":
            return StrSub(e["v"])
        if tag == "intsub":
            return IntSub(e["v"])
        if tag == "floatsub":
            return FloatSub(e["v"])
        if tag == "dictsub":
            return DictSub(decode(e["v"]))
        if tag == "listsub":
            return ListSub(decode(e["v"]))
        if tag == "dict":
            return {decode(k) if not isinstance(k, list) else tuple(k): decode(v) for k, v in e["items"]}
        if tag == "opaque":
            return Opaque()
        if tag == "hostile_eq":
            return HostileEq()
        if tag == "unhashable":
            return Unhashable()
        if tag == "type":
            return int
        if tag == "complex":
            return 1j
        if tag == "range":
            return range(3)
        if tag == "ellipsis":
            return ...
        if tag == "lambda":
            return decode
        if tag == "deep":
            return deep(e["n"], e["form"], decode(e.get("leaf")))
        raise ValueError(f"unknown tag {tag}")
    return e


def deep(n: int, form: str, leaf: Any = None) -> Any:
    """Nesting of depth n built iteratively (lists or {key: ...} chains)."""
    cur: Any = leaf
    for _ in range(n):
        if form == "list":
            cur = [cur]
        else:
            cur = {form: cur}
    return cur


def is_hostile(e: Any) -> bool:
    if isinstance(e, list):
        return any(is_hostile(x) for x in e)
    if isinstance(e, dict):
        return "$py" in e or any(is_hostile(v) for v in e.values())
    return False


def plant(draw, d: Any, n: int) -> Any:
    """Replace n positions of JSON datum d (encoded form == itself) by hostile atoms."""
    for _ in range(n):
        ps = [p for p in paths(d) if not _inside_tag(d, p)]
        path = pick(draw, ps)
        d = set_at(d, path, pick(draw, HOSTILE_ATOMS))
    return d


def _inside_tag(d, path) -> bool:
    cur = d
    for p in path:
        if isinstance(cur, dict) and "$py" in cur:
            return True
        cur = cur[p]
    return False


hostile_json = st.recursive(
    st.one_of(st.sampled_from(ATOMS), st.sampled_from(HOSTILE_ATOMS)),
    lambda ch: st.one_of(st.lists(ch, max_size=3), st.dictionaries(st.sampled_from(["a", "b", "zz", "x_a", "a1"]), ch, max_size=3)),
    max_leaves=8,
)


def snapshot(x: Any, depth: int = 0) -> Any:
    """Type-exact, NaN-aware structural snapshot recording id() of every container."""
    if depth > 200:
        return ("deep", id(x))
    cls = x.__class__
    if cls in (list, ListSub):
        return (cls.__name__, id(x), tuple(snapshot(y, depth + 1) for y in x))
    if cls is tuple:
        return ("tuple", id(x), tuple(snapshot(y, depth + 1) for y in x))
    if cls in (dict, DictSub):
        return (cls.__name__, id(x), tuple((snapshot(k, depth + 1), snapshot(v, depth + 1)) for k, v in list(dict.items(x))))
    if cls in (set, frozenset):
        return (cls.__name__, id(x), len(x))
    if isinstance(x, float):
        return (cls.__name__, repr(float(x)), math.copysign(1, x) if x == 0 else 0)
    if isinstance(x, int) and not isinstance(x, bool) and x.bit_length() > 2000:
        return (cls.__name__, "big", x.bit_length(), hash(x))  # (repr of a huge int hits the interpreter's digit limit)
    if isinstance(x, (int, str, bytes)):
        return (cls.__name__, repr(x)[:80])
    return (cls.__name__, id(x))


def container_ids(x: Any, acc=None, depth: int = 0) -> set:
    acc = set() if acc is None else acc
    if depth > 200:
        return acc
    if isinstance(x, (list, dict, set)):
        acc.add(id(x))
        for y in (x.values() if isinstance(x, dict) else x):
            if isinstance(y, (list, dict, set, tuple)):
                container_ids(y, acc, depth + 1)
    elif isinstance(x, tuple):
        for y in x:
            container_ids(y, acc, depth + 1)
    return acc
