"""Descriptor -> rendered Python source -> fresh synthetic module.

The descriptor grammar is documented in DESIGN.md Appendix C (this file is its executable
definition).  Programs are rendered exactly as a user would write them: class statements,
decorators, `field(metadata=...)`, `Annotated[...]`, registrations.  The text is put in
`linecache` so that `inspect.getsource` (used by validators' dependency analysis) works.
"""
from __future__ import annotations

import itertools
import linecache
import sys
import types
from typing import Any, Dict, List, Optional

PRELUDE = '''\
import re
import sys
import dataclasses
from dataclasses import dataclass, field, InitVar
from enum import Enum, IntEnum
from typing import (Any, Optional, Union, List, Sequence, Collection, MutableSequence, Set, AbstractSet,
    MutableSet, FrozenSet, Tuple, Dict, Mapping, MutableMapping, NamedTuple, NewType, Generic, TypeVar,
    Literal, Annotated, TypedDict, Deque)
import apischema
from apischema import (alias, schema, validator, ValidationError, Undefined, UndefinedType, Unsupported,
    serialized, order, type_name, discriminator, dependent_required, deserializer, serializer, identity)
from apischema.metadata import (flatten, properties, required, skip, none_as_undefined,
    fall_back_on_default, default_as_set, conversion, validators, init_var)
from apischema.fields import with_fields_set, fields_set, set_fields, unset_fields
from apischema.conversions import Conversion, LazyConversion
from apischema.tagged_unions import TaggedUnion, Tagged, get_tagged
from apischema.utils import to_camel_case

T = TypeVar("T")
U = TypeVar("U")
LOG = []
CTRL = {}

def upper(s): return s.upper()
def pfx(s): return "p_" + s
def sfx(s): return s + "_s"
def camel(s): return to_camel_case(s)
def ident(s): return s
def is_none(v): return v is None
def falsy(v): return not v
def truthy(v): return bool(v)
class UserError(Exception):
    """Raised by generated user callables (exempt from the crash-freedom property)."""
class Ver:
    """A user type with TWO catching deserializers (from "1.2" and from [1, 2]) and a serializer: std kind "ver"."""
    def __init__(self, a, b):
        self.a, self.b = a, b
    def __eq__(self, other):
        return type(other) is Ver and (other.a, other.b) == (self.a, self.b)
    def __hash__(self):
        return hash((self.a, self.b))
    def __repr__(self):
        return f"Ver({self.a}, {self.b})"
def _ver_from_str(s: str) -> Ver:
    a, b = s.split(".")
    return Ver(int(a), int(b))
def _ver_from_list(l: List[int]) -> Ver:
    if len(l) != 2:
        raise ValueError("a version has two components")
    return Ver(*l)
def _ver_to_str(v: Ver) -> str:
    return f"{v.a}.{v.b}"
class Amount:
    """A type converted from / to a union of primitives, with a schema annotation of its own: std kind "amount"."""
    def __init__(self, v):
        self.v = v
    def __eq__(self, other):
        return type(other) is Amount and other.v == self.v and type(other.v) is type(self.v)
    def __hash__(self):
        return hash(self.v)
    def __repr__(self):
        return f"Amount({self.v!r})"
def _amount_from(v: Union[int, str]) -> Amount:
    return Amount(v)
def _amount_to(a: Amount) -> Union[int, str]:
    return a.v
deserializer(_amount_from)
serializer(_amount_to)
schema(description="amount")(Amount)
@dataclass
class VerObj:
    a: int
    b: int = 0
def ver_from_obj(o: VerObj) -> Ver:
    return Ver(o.a, o.b)
def ver_to_obj(v: Ver) -> VerObj:
    return VerObj(v.a, v.b)
deserializer(Conversion(apischema.conversions.catch_value_error(_ver_from_str), source=str, target=Ver))
deserializer(Conversion(apischema.conversions.catch_value_error(_ver_from_list), source=List[int], target=Ver))
serializer(_ver_to_str)
def not13(v):
    if v == 13 and not isinstance(v, bool):
        raise ValidationError("unlucky 13")
def not_abc(v):
    if v == "abc":
        raise ValidationError("no abc")
'''

ALIASERS = {
    "id": lambda s: s,
    "upper": lambda s: s.upper(),
    "pfx": lambda s: "p_" + s,
    "sfx": lambda s: s + "_s",
}

CONSTRAINT_KEYS = ["min", "max", "exc_min", "exc_max", "mult_of", "min_len", "max_len", "pattern",
                   "min_items", "max_items", "unique", "min_props", "max_props"]

_counter = itertools.count()


def camel(s: str) -> str:
    import re

    return re.sub(r"_([a-z\d])", lambda m: m.group(1).upper(), s)


ALIASERS["camel"] = camel


def cexpr(c: Dict[str, Any]) -> str:
    return "schema(" + ", ".join(f"{k}={c[k]!r}" for k in CONSTRAINT_KEYS if c.get(k) is not None) + ")"


def texpr(t: Dict[str, Any], prog: Dict[str, Any]) -> str:
    k = t["k"]
    if k in ("str", "int", "float", "bool"):
        return k
    if k == "none":
        return "None"
    if k == "any":
        return "Any"
    if k == "opt":
        return f"Optional[{texpr(t['of'], prog)}]"
    if k == "union":
        u = "Union[" + ", ".join(texpr(a, prog) for a in t["alts"]) + "]"
        disc = t.get("disc")
        if disc:  # discriminated union: {"alias": str, "mapping": None | {key: index of the alternative}}
            if disc.get("mapping"):
                m = ", ".join(f"{key!r}: {texpr(t['alts'][i], prog)}" for key, i in disc["mapping"].items())
                return f"Annotated[{u}, discriminator({disc['alias']!r}, {{{m}}})]"
            return f"Annotated[{u}, discriminator({disc['alias']!r})]"
        return u
    if k == "ann":
        md = ([cexpr(t["c"])] if t.get("c") else []) + ([f"validators({t['val']})"] if t.get("val") else [])
        return f"Annotated[{texpr(t['of'], prog)}, {', '.join(md)}]"
    if k == "unsup":
        return f"Annotated[{texpr(t['of'], prog)}, Unsupported]"
    if k in ("list", "set", "frozenset"):
        return f"{t['sp']}[{texpr(t['of'], prog)}]"
    if k == "vartuple":
        return f"{t.get('sp', 'Tuple')}[{texpr(t['of'], prog)}, ...]"
    if k == "tuple":
        return f"{t.get('sp', 'Tuple')}[" + ", ".join(texpr(a, prog) for a in t["items"]) + "]"
    if k == "map":
        return f"{t['sp']}[{texpr(t['key'], prog)}, {texpr(t['val'], prog)}]"
    if k == "lit":
        return "Literal[" + ", ".join(litexpr(v, prog) for v in t["values"]) + "]"
    if k == "enum":
        return prog["enums"][t["i"]]["name"]
    if k == "newtype":
        return prog["newtypes"][t["i"]]["name"]
    if k == "cls":
        name = prog["classes"][t["i"]]["name"]
        if t.get("args"):
            return name + "[" + ", ".join(texpr(a, prog) for a in t["args"]) + "]"
        return name
    if k == "tvar":
        return t["name"]
    if k == "undefined":
        return "UndefinedType"
    if k == "std":
        return {"uuid": "uuid.UUID", "date": "datetime.date", "datetime": "datetime.datetime",
                "time": "datetime.time", "decimal": "decimal.Decimal", "bytes": "bytes",
                "path": "pathlib.Path", "ipv4": "ipaddress.IPv4Address", "ver": "Ver", "amount": "Amount"}[t["t"]]
    raise ValueError(f"unknown type kind {k}")


def litexpr(v: Any, prog: Dict[str, Any]) -> str:
    if isinstance(v, dict) and "enum" in v:  # {"enum": [i, member]}
        return f"{prog['enums'][v['enum'][0]]['name']}.{v['enum'][1]}"
    return repr(v)


def vexpr(c: Any, prog: Dict[str, Any]) -> str:
    """Python expression building the typed value described by canon `c`."""
    tag = c[0]
    if tag == "none":
        return "None"
    if tag in ("bool", "int", "str"):
        return repr(c[1])
    if tag == "float":
        return repr(float(c[1]))
    if tag == "undef":
        return "Undefined"
    if tag == "list":
        return "[" + ", ".join(vexpr(x, prog) for x in c[1]) + "]"
    if tag == "tuple":
        return "(" + "".join(vexpr(x, prog) + ", " for x in c[1]) + ")"
    if tag == "set":
        return "{" + ", ".join(vexpr(x, prog) for x in c[1]) + "}" if c[1] else "set()"
    if tag == "frozenset":
        return "frozenset([" + ", ".join(vexpr(x, prog) for x in c[1]) + "])"
    if tag == "dict":
        return "{" + ", ".join(f"{vexpr(k, prog)}: {vexpr(v, prog)}" for k, v in c[1]) + "}"
    if tag == "tdict":
        return "{" + ", ".join(f"{k!r}: {vexpr(v, prog)}" for k, v in c[1].items()) + "}"
    if tag == "enum":
        return f"{c[1]}.{c[2]}"
    if tag == "std":
        img = c[2]
        return {"uuid": f"uuid.UUID({img!r})", "date": f"datetime.date.fromisoformat({img!r})",
                "datetime": f"datetime.datetime.fromisoformat({img!r})", "time": f"datetime.time.fromisoformat({img!r})",
                "decimal": f"decimal.Decimal({str(img)!r})", "bytes": f"__import__('base64').b64decode({img!r})",
                "path": f"pathlib.Path({img!r})", "ipv4": f"ipaddress.IPv4Address({img!r})",
                "ver": f"Ver({', '.join(str(img).split('.'))})", "amount": f"Amount({img!r})"}[c[1]]
    if tag == "nt":  # NewType value: same runtime class as the base
        return vexpr(c[1], prog)
    if tag == "obj":
        cd = next(x for x in prog["classes"] if x["name"] == c[1])
        init = {f["n"] for f in cd["fields"] if f.get("kind", "normal") != "init_false"}
        kw = c[2]
        extra = c[3] if len(c) > 3 else {}
        args = [f"{n}={vexpr(v, prog)}" for n, v in kw.items() if n in init]
        for f in cd["fields"]:  # InitVar values are observable through their companion field
            if f.get("kind") == "initvar" and f["n"] + "_st" in kw:
                args.append(f"{f['n']}={vexpr(kw[f['n'] + '_st'], prog)}")
        args += [f"{n}={vexpr(v, prog)}" for n, v in extra.items()]
        return f"{c[1]}(" + ", ".join(args) + ")"
    raise ValueError(f"cannot render value {c!r}")


def _immutable(c: Any) -> bool:
    return c[0] in ("none", "bool", "int", "float", "str", "undef", "enum", "std") or (
        c[0] == "tuple" and all(_immutable(x) for x in c[1])) or (c[0] == "nt" and _immutable(c[1]))


def _metadata(f: Dict[str, Any], prog) -> List[str]:
    md = []
    if f.get("alias") is not None:
        md.append(f"alias({f['alias']!r}" + (", override=False" if f.get("no_override") else "") + ")")
    elif f.get("no_override"):
        md.append("alias(override=False)")
    agg = f.get("agg")
    if agg == "flatten":
        md.append("flatten")
    elif agg == "additional":
        md.append("properties")
    elif isinstance(agg, dict):
        md.append(f"properties({agg['pattern']!r})" if agg["pattern"] != "..." else "properties(...)")
    if f.get("required"):
        md.append("required")
    sk = f.get("skip")
    if sk:
        if sk.get("de") and sk.get("ser") and not sk.get("ser_default") and not sk.get("ser_if"):
            md.append("skip")
        else:
            kw = []
            if sk.get("de"):
                kw.append("deserialization=True")
            if sk.get("ser"):
                kw.append("serialization=True")
            if sk.get("ser_default"):
                kw.append("serialization_default=True")
            if sk.get("ser_if"):
                kw.append(f"serialization_if={sk['ser_if']}")
            md.append("skip(" + ", ".join(kw) + ")")
    if f.get("none_as_undefined"):
        md.append("none_as_undefined")
    if f.get("fall_back"):
        md.append("fall_back_on_default")
    if f.get("fconv"):
        md.append("conversion(deserialization=ver_from_obj, serialization=ver_to_obj)")
    if f.get("default_as_set"):
        md.append("default_as_set")
    o = f.get("order")
    if o:
        if "v" in o:
            md.append(f"order({o['v']})")
        elif "after" in o:
            md.append(f"order(after={o['after']!r})")
        else:
            md.append(f"order(before={o['before']!r})")
    if f.get("c"):
        md.append(cexpr(f["c"]))
    if f.get("validators"):
        md.append("validators(" + ", ".join(f["validators"]) + ")")
    if f.get("conv"):
        md.append(f["conv"])
    return md


def render_class(cd: Dict[str, Any], prog: Dict[str, Any]) -> List[str]:
    out: List[str] = []
    flavor = cd["flavor"]
    name = cd["name"]
    for deco in cd.get("decorators", []):
        out.append("@" + deco)
    if cd.get("type_name") is not None:
        out.append(f"@type_name({cd['type_name']})")
    if cd.get("order_cls"):
        out.append(f"@order({cd['order_cls']})")
    if cd.get("aliaser"):
        out.append(f"@alias({cd['aliaser']})")
    params = cd.get("params") or []
    bases = list(cd.get("bases") or [])
    if flavor == "dataclass":
        if cd.get("fields_set"):
            out.append("@with_fields_set")
        out.append("@dataclass(frozen=True)" if cd.get("frozen") else "@dataclass")
        if params:
            bases.append("Generic[" + ", ".join(params) + "]")
        out.append(f"class {name}" + (f"({', '.join(bases)})" if bases else "") + ":")
        body: List[str] = []
        initvars = []
        # dataclass ordering rule: fields without default first is the generator's job
        for f in cd["fields"]:
            kind = f.get("kind", "normal")
            te = texpr(f["t"], prog)
            md = _metadata(f, prog)
            args = []
            if kind == "init_false":
                args.append("init=False")
            d = f.get("default")
            if d is not None:
                if _immutable(d["c"]):
                    args.append(f"default={vexpr(d['c'], prog)}")
                else:
                    args.append(f"default_factory=lambda: {vexpr(d['c'], prog)}")
            if md:
                args.append("metadata=" + " | ".join(md))
            if kind == "initvar":
                te = f"InitVar[{te}]"
                initvars.append(f["n"])
            if args:
                if args == [a for a in args if a.startswith("default=")] and len(args) == 1 and not md:
                    body.append(f"    {f['n']}: {te} = {args[0][len('default='):]}")
                else:
                    body.append(f"    {f['n']}: {te} = field({', '.join(args)})")
            else:
                body.append(f"    {f['n']}: {te}")
        if cd.get("dep_req"):
            body.append(f"    _dep = dependent_required({cd['dep_req']})")
        for v in cd.get("validators") or []:
            body += ["    @validator", f"    def {v['name']}(self):", f"        if self.{v['field']} == {v['bad']!r}:",
                     f"            raise ValidationError({v['name']!r})"]
        if initvars or cd.get("post_init"):
            body.append("    def __post_init__(self" + "".join(", " + v for v in initvars) + "):")
            for f in cd["fields"]:
                if f.get("from_initvar"):
                    body.append(f"        object.__setattr__(self, {f['n']!r}, {f['from_initvar']})")
            for line in cd.get("post_init") or []:
                body.append("        " + line)
            if not any(f.get("from_initvar") for f in cd["fields"]) and not cd.get("post_init"):
                body.append("        pass")
        body += ["    " + line for line in cd.get("body") or []]
        for m in cd.get("methods") or []:  # serialized methods / properties
            body.append("    @serialized" + (f"({m['alias']!r})" if m.get("alias") else ""))
            if m.get("prop"):
                body.append("    @property")
            body.append(f"    def {m['n']}(self) -> {texpr(m['ret'], prog)}:")
            body.append(f"        return self.{m['field']}" if m["kind"] == "field" else f"        return {vexpr(m['value'], prog)}")
        out += body or ["    pass"]
    elif flavor == "namedtuple":
        out.append(f"class {name}(NamedTuple):")
        for f in cd["fields"]:
            te = texpr(f["t"], prog)
            md = _metadata(f, prog)
            if md:
                te = f"Annotated[{te}, {', '.join(md)}]"
            d = f.get("default")
            out.append(f"    {f['n']}: {te}" + (f" = {vexpr(d['c'], prog)}" if d is not None else ""))
        out += ["    " + line for line in cd.get("body") or []]
        if not cd["fields"] and not cd.get("body"):
            out.append("    pass")
    elif flavor == "typeddict":
        # required keys in a total base, optional ones in a total=False subclass (Required/NotRequired
        # are answered with Unsupported by apischema)
        req = [f for f in cd["fields"] if f.get("td_required", True)]
        opt = [f for f in cd["fields"] if not f.get("td_required", True)]

        def lines(fs):
            res = []
            for f in fs:
                te = texpr(f["t"], prog)
                md = _metadata(f, prog)
                if md:
                    te = f"Annotated[{te}, {', '.join(md)}]"
                res.append(f"    {f['n']}: {te}")
            return res or ["    pass"]

        if req and opt:
            out.insert(0, f"class {name}_Base(TypedDict):")
            out[1:1] = lines(req)
            out.append(f"class {name}({name}_Base, total=False):")
            out += lines(opt)
        elif opt:
            out.append(f"class {name}(TypedDict, total=False):")
            out += lines(opt)
        else:
            out.append(f"class {name}(TypedDict):")
            out += lines(req)
    else:
        raise ValueError(flavor)
    return out


def render(prog: Dict[str, Any]) -> str:
    lines: List[str] = []
    if prog.get("future", True):
        lines.append("from __future__ import annotations")
    lines.append(PRELUDE)
    lines.append("import uuid, datetime, decimal, pathlib, ipaddress")
    for line in prog.get("pre", []):
        lines.append(line)
    for e in prog.get("enums", []):
        base = {"plain": "Enum", "int": "IntEnum", "str": "str, Enum"}[e.get("base", "plain")]
        lines.append(f"class {e['name']}({base}):")
        for m, v in e["members"]:
            lines.append(f"    {m} = {v!r}")
        lines.append("")
    for n in prog.get("newtypes", []):
        lines.append(f"{n['name']} = NewType({n['name']!r}, {texpr(n['of'], prog)})")
        if n.get("c"):
            lines.append(f"{cexpr(n['c'])}({n['name']})")
        if n.get("type_name") is not None:
            lines.append(f"type_name({n['type_name']})({n['name']})")
    classes = prog.get("classes", [])
    order = prog.get("order") or range(len(classes))
    for i in order:  # completion order: eager default values only refer to completed classes
        cd = classes[i]
        lines += render_class(cd, prog)
        lines.append("")
    for line in prog.get("post", []):
        lines.append(line)
    if "root" in prog:
        lines.append(f"ROOT = {texpr(prog['root'], prog)}")
    return "\n".join(lines) + "\n"


class Built:
    def __init__(self, prog, source, module):
        self.prog = prog
        self.source = source
        self.module = module

    def typeof(self, t: Dict[str, Any]):
        return eval(texpr(t, self.prog), self.module.__dict__)

    def value(self, c: Any):
        return eval(vexpr(c, self.prog), self.module.__dict__)

    @property
    def root(self):
        return self.module.ROOT

    def close(self):
        sys.modules.pop(self.module.__name__, None)
        linecache.cache.pop(self.module.__file__, None)
        _forget(self.module.__name__)
        try:  # Hypothesis memoizes the constants of every module it has seen in sys.modules (lru_cache of 4096 MODULES)
            from hypothesis.internal import constants_ast

            constants_ast.constants_from_module.cache_clear()
        except Exception:
            pass


def _forget(modname: str) -> None:
    """apischema keeps module-level registries keyed by class or function (deserializers, serializers, schemas, type
    names, validators, serialized methods, fields-set classes, ...): entries of a closed generated module would keep
    its classes alive for ever (8 GB per shard in a thorough run).  Generic sweep: every dict / set held by a module
    of the apischema package loses the keys defined in `modname`."""
    import apischema  # noqa: F401

    def owned(k, depth=0) -> bool:
        if getattr(k, "__module__", None) == modname:
            return True
        if depth < 4:  # generic aliases (typing.Deque[vgen_4.W]) and tuples mentioning a class of the module
            args = k if isinstance(k, tuple) else getattr(k, "__args__", None)
            if isinstance(args, tuple):
                return any(owned(a, depth + 1) for a in args)
        return False

    _REGISTRIES[1] += 1
    if _REGISTRIES[0] is None or _REGISTRIES[1] % 300 == 0:  # the module-level containers of the package (stable objects)
        found = []
        for name, mod in list(sys.modules.items()):
            if mod is None or not (name == "apischema" or name.startswith("apischema.")):
                continue
            for attr, val in list(vars(mod).items()):
                target = getattr(val, "wrapped", val)  # CacheAwareDict -> its plain dict (caches are reset at the next load)
                if isinstance(target, (dict, set)) and not attr.startswith("__"):
                    found.append(target)
        _REGISTRIES[0] = found
    for target in _REGISTRIES[0]:
        try:
            if isinstance(target, dict):
                for k in [k for k in list(target) if owned(k)]:
                    dict.pop(target, k, None)
            else:
                for k in [k for k in list(target) if owned(k)]:
                    target.discard(k)
        except Exception:
            continue


_REGISTRIES = [None, 0]


def _unused():
    pass


def load(prog: Dict[str, Any], source: Optional[str] = None, reset: bool = True) -> Built:
    """`reset`: apischema caches compiled methods in lru_caches keyed by type *equality*, and
    Union[A, B] == Union[B, A], Literal[1, 2] == Literal[2, 1]: without a reset a case could be
    served the method compiled for an earlier, differently ordered program (that staleness is
    C09's subject and must not leak into the other properties)."""
    if reset:
        import typing

        import apischema.cache

        apischema.cache.reset()
        # typing memoizes subscriptions by argument *equality*: after List[Union[str, bool]] was built once,
        # List[Union[bool, str]] evaluates to that same object (alternatives in the former order)
        for clear in getattr(typing, "_cleanups", ()):
            clear()
    if source is None:
        source = render(prog)
    name = f"vgen_{next(_counter)}"
    filename = f"<{name}>"
    mod = types.ModuleType(name)
    mod.__file__ = filename
    linecache.cache[filename] = (len(source), None, source.splitlines(True), filename)
    sys.modules[name] = mod
    try:
        exec(compile(source, filename, "exec"), mod.__dict__)
    except BaseException:
        sys.modules.pop(name, None)
        linecache.cache.pop(filename, None)
        raise
    return Built(prog, source, mod)
