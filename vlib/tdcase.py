"""Shared "type program x data x options" cases (C01 C02 C03 C06 C13 C14 ...)."""
from __future__ import annotations

import json
from typing import Any, Dict, List, Optional

from hypothesis import strategies as st

from vlib import build, gen
from vlib import model as M
from vlib.gen import chance, pick


@st.composite
def options(draw, coerce=False, aliasers=("id", "id", "camel", "pfx")):
    return {
        "additional_properties": chance(draw, 0.25),
        "fall_back_on_default": chance(draw, 0.15),
        "aliaser": pick(draw, aliasers),
        "coerce": bool(coerce) and chance(draw, 0.7),
    }


@st.composite
def td_cases(draw, cfg: Optional[dict] = None, n_data=(4, 10), coerce=False, mix=(35, 30, 15, 20),
             data_fn=None):
    prog = draw(gen.programs(cfg))
    opts = draw(options(coerce=coerce))
    if (cfg or {}).get("root_schema"):
        draw_root_schema(draw, prog, opts)
    n = draw(st.integers(*n_data))
    data = []
    for _ in range(n):
        if data_fn is not None:
            d, tag = data_fn(draw, prog, prog["root"], opts)
        else:
            d, tag = gen.data_for(draw, prog, prog["root"], opts["aliaser"], mix)
        data.append({"d": d, "tag": tag})
    return {"prog": prog, "opts": opts, "data": data}


def draw_root_schema(draw, prog, opts, rate=0.2):
    """With probability `rate`, constraints passed per call (schema= of deserialize / deserialization_schema) for the
    root type, stored in opts["root_schema"]."""
    if chance(draw, rate):
        base = M.strip(prog["root"], prog)["k"]
        kind = {"int": "int", "float": "float", "str": "str", "list": "array", "vartuple": "array", "set": "array", "map": "object"}.get(base)
        if kind:
            c = gen.TypeGen(draw, {"explicit_unique": False}).constraints(kind)
            if c:
                c.pop("pattern", None)
                c.pop("mult_of", None)
            if c:
                opts["root_schema"] = c


def api_kwargs(opts: dict) -> dict:
    kw: Dict[str, Any] = {
        "additional_properties": bool(opts.get("additional_properties")),
        "fall_back_on_default": bool(opts.get("fall_back_on_default")),
        "aliaser": build.ALIASERS[opts.get("aliaser", "id")],
    }
    if opts.get("coerce"):
        kw["coerce"] = True
    if opts.get("root_schema"):
        import apischema

        kw["schema"] = apischema.schema(**opts["root_schema"])
    return kw


def sub_kwargs(kw: dict) -> dict:
    """api kwargs for a node below the root (the per-call schema concerns the root only)."""
    return {k: v for k, v in kw.items() if k != "schema"}


def describe(case: dict) -> str:
    src = build.render(case["prog"])
    i = src.find("import uuid")
    return src[i:] if i >= 0 else src


def json_class(d: Any) -> str:
    return M.JSON_NAMES.get(d.__class__, d.__class__.__name__)


def tree_classes(method_or_factory) -> List[str]:
    """Class names of the compiled (de)serialization method tree (for histograms and
    non-triviality rules).  Walks dataclass-like attributes; tolerant by design."""
    seen, out, todo = set(), [], [method_or_factory]
    while todo:
        m = todo.pop()
        if id(m) in seen:
            continue
        seen.add(id(m))
        mod = getattr(m.__class__, "__module__", "")
        if not mod.startswith("apischema"):
            continue
        out.append(m.__class__.__name__)
        d = getattr(m, "__dict__", None)
        if not d:
            continue
        for v in d.values():
            if isinstance(v, (list, tuple)):
                todo.extend(v)
            elif isinstance(v, dict):
                todo.extend(v.values())
            else:
                todo.append(v)
    return out


def shape(t: dict, prog: dict, depth: int = 3) -> Any:
    """Coarse structural shape of a type descriptor (for distinctness hashes)."""
    k = t["k"]
    if depth <= 0:
        return k
    if k in ("opt", "list", "set", "frozenset", "vartuple", "unsup"):
        return [k, shape(t["of"], prog, depth - 1)]
    if k == "ann":
        return ["ann", sorted(t["c"]), shape(t["of"], prog, depth - 1)]
    if k == "newtype":
        nt = prog["newtypes"][t["i"]]
        return ["nt", sorted(nt.get("c") or {}), shape(nt["of"], prog, depth - 1)]
    if k == "union":
        return ["union"] + [shape(a, prog, depth - 1) for a in t["alts"]]
    if k == "tuple":
        return ["tuple"] + [shape(a, prog, depth - 1) for a in t["items"]]
    if k == "map":
        return ["map", shape(t["key"], prog, depth - 1), shape(t["val"], prog, depth - 1)]
    if k == "cls":
        cd = prog["classes"][t["i"]]
        return ["cls", cd["flavor"], [[shape(f["t"], prog, depth - 2), f.get("kind", "n")[0],
                                       f.get("default") is not None, bool(f.get("alias")), str(f.get("agg"))[:4]]
                                      for f in cd["fields"]]]
    if k == "lit":
        return ["lit", [json_class(v) if not isinstance(v, dict) else "enum" for v in t["values"]]]
    return k


def dshape(d: Any, depth: int = 3) -> Any:
    if depth <= 0:
        return json_class(d)
    if isinstance(d, list):
        return [dshape(x, depth - 1) for x in d[:4]]
    if isinstance(d, dict):
        return {str(k)[:3]: dshape(v, depth - 1) for k, v in list(d.items())[:4]}
    return json_class(d)


def children(prog: dict, t: dict, d: Any, dyn: str, c: Optional[dict] = None):
    """(sub-type, sub-datum, constraints) pairs one level below (t, d), for localisation."""
    k = t["k"]
    if k == "ann":
        try:
            return [(t["of"], d, M.merge_constraints(t["c"], c))]
        except M.Unspecified:
            return []
    if k == "newtype":
        nt = prog["newtypes"][t["i"]]
        try:
            return [(nt["of"], d, M.merge_constraints(nt.get("c"), c))]
        except M.Unspecified:
            return []
    if k == "opt":
        return [(t["of"], d, c)] if d is not None else []
    if k == "union":
        return []
    if k in ("list", "set", "frozenset", "vartuple") and isinstance(d, list):
        return [(t["of"], x, None) for x in d]
    if k == "tuple" and isinstance(d, list) and len(d) == len(t["items"]):
        return [(it, x, None) for it, x in zip(t["items"], d)]
    if k == "map" and isinstance(d, dict):
        return [(t["val"], x, None) for x in d.values()] + [(t["key"], key, None) for key in d if isinstance(key, str)]
    if k == "cls" and isinstance(d, dict):
        cd = prog["classes"][t["i"]]
        if t.get("args"):
            cd = M.specialize(cd, t["args"])
        out = []
        taken = set()
        for f in M.des_fields(cd):
            if f.get("agg") is None:
                key = M.ext_name(f, cd, dyn)
                taken.add(key)
                if key in d:
                    ft = M.remove_none(f["t"]) if f.get("none_as_undefined") else f["t"]
                    out.append((ft, d[key], f.get("c")))
        # items taken by pattern / additional-properties fields: their value (and key) against the mapping's types
        import re as _re
        rest = [key for key in d if key not in taken and isinstance(key, str)]
        for f in M.des_fields(cd):
            agg = f.get("agg")
            mt = M.strip(f["t"], prog)
            if mt["k"] != "map" or agg in (None, "flatten"):
                continue
            keys = [key for key in rest if _re.search(agg["pattern"], key)] if isinstance(agg, dict) else rest
            for key in keys:
                out.append((mt["val"], d[key], None))
                out.append((mt["key"], key, None))
            if isinstance(agg, dict):
                rest = [key for key in rest if key not in keys]
        return out
    return []


def wrap_c(t: dict, c: Optional[dict]) -> dict:
    return {"k": "ann", "of": t, "c": c} if c else t


def node_sig(prog: dict, t: dict) -> str:
    k = t["k"]
    if k == "ann":
        return "ann[" + ",".join(sorted(t["c"])) + "]:" + node_sig(prog, t["of"])
    if k == "newtype":
        nt = prog["newtypes"][t["i"]]
        return "newtype[" + ",".join(sorted(nt.get("c") or {})) + "]:" + node_sig(prog, nt["of"])
    if k == "cls":
        return "cls:" + prog["classes"][t["i"]]["flavor"]
    if k == "enum":
        return "enum:" + prog["enums"][t["i"]].get("base", "plain")
    return k


def compact(obj: Any, limit: int = 400) -> str:
    s = json.dumps(obj, default=repr, sort_keys=True)
    return s if len(s) <= limit else s[:limit] + "..."


# ---------------------------------------------------------------------------------------
# named types: reachability, recursion (C17 / C18)
# ---------------------------------------------------------------------------------------

def type_refs(t: dict, prog: dict):
    """Named types directly mentioned by a type expression (not entering class bodies):
    yields ("cls", i) / ("enum", i) / ("newtype", i)."""
    k = t["k"]
    if k == "cls":
        yield ("cls", t["i"])
        for a in t.get("args", []):
            yield from type_refs(a, prog)
    elif k == "enum":
        yield ("enum", t["i"])
    elif k == "newtype":
        yield ("newtype", t["i"])
        yield from type_refs(prog["newtypes"][t["i"]]["of"], prog)
    elif k == "lit":
        for v in t["values"]:
            if isinstance(v, dict) and "enum" in v:
                pass
    for key in ("of", "key", "val"):
        if isinstance(t.get(key), dict) and k != "newtype":
            yield from type_refs(t[key], prog)
    for key in ("alts", "items"):
        for x in t.get(key, []):
            yield from type_refs(x, prog)


def class_edges(prog: dict, i: int):
    out = set()
    for f in _dir_fields(prog["classes"][i]):
        for kind, j in type_refs(f["t"], prog):
            if kind == "cls":
                out.add(j)
    return out


def recursive_classes(prog: dict):
    """Indices of classes lying on a reference cycle."""
    n = len(prog["classes"])
    edges = {i: class_edges(prog, i) for i in range(n)}
    rec = set()
    for i in range(n):
        seen, todo = set(), list(edges[i])
        while todo:
            j = todo.pop()
            if j == i:
                rec.add(i)
                break
            if j in seen:
                continue
            seen.add(j)
            todo.extend(edges[j])
    return rec


def _dir_fields(cd: dict, direction=None):
    """Fields followed from a class for an operation; serialized methods count as fields typed by their return
    type for serialization (and when no direction is given)."""
    methods = [{"n": m["n"], "t": m["ret"], "method": True} for m in cd.get("methods") or []]
    if direction == "serialization":
        return M.ser_fields(cd) + methods
    if direction == "deserialization":
        return M.des_fields(cd)
    return cd["fields"] + methods


def reachable_named(prog: dict, t: dict, direction=None):
    """All named types reachable from t: set of ("cls"|"enum"|"newtype", index); with a direction,
    fields invisible to that operation (skip metadata, InitVar / init=False) are not followed."""
    out, todo = set(), [t]
    while todo:
        cur = todo.pop()
        for ref in type_refs(cur, prog):
            if ref in out:
                continue
            out.add(ref)
            if ref[0] == "cls":
                todo.extend(f["t"] for f in _dir_fields(prog["classes"][ref[1]], direction))
    return out


def named_occurrences(prog: dict, t: dict, direction=None):
    """How many times each named type is mentioned from t (each reachable class body counted once)."""
    counts, seen, todo = {}, set(), [t]
    while todo:
        cur = todo.pop()
        for ref in type_refs(cur, prog):
            counts[ref] = counts.get(ref, 0) + 1
            if ref[0] == "cls" and ref not in seen:
                seen.add(ref)
                todo.extend(f["t"] for f in _dir_fields(prog["classes"][ref[1]], direction))
    return counts


def schema_features(prog):
    """Features of a program that known schema-generation findings depend on (aggregate fields reaching their own
    class, nested flattened fields)."""
    feats = {}
    rec = recursive_classes(prog)
    agg_rec = False
    nested_flatten = False
    for i, cd in enumerate(prog["classes"]):
        for f in cd["fields"]:
            if f.get("agg"):
                refs = {j for k_, j in reachable_named(prog, f["t"]) if k_ == "cls"}
                if refs & rec or i in refs:
                    agg_rec = True
                if f["agg"] == "flatten":
                    sub = prog["classes"][M.strip(f["t"], prog)["i"]]
                    if any(g_.get("agg") for g_ in sub["fields"]):
                        nested_flatten = True
    feats["recursive_aggregate"] = agg_rec
    feats["nested_flatten"] = nested_flatten
    return feats
