#!/venv/bin/python
"""Offline, idempotent installation of the harness dependencies into /verif/.deps.

jsonschema (+ referencing, rpds_py, attrs, jsonschema_specifications), hypothesis and
atheris come from the offline wheelhouse.  typing_extensions is removed from .deps so
that apischema keeps seeing the one of /venv (as in the pinned test-suite).
"""
import os
import shutil
import subprocess
import sys

HERE = os.path.dirname(os.path.abspath(__file__))
DEPS = os.path.join(HERE, ".deps")
WHEELS = "/opt/veriftools/wheels"
PKGS = ["jsonschema", "hypothesis", "atheris"]
STAMP = os.path.join(DEPS, ".ok")


def main() -> int:
    if os.path.exists(STAMP):
        print("deps already installed")
        return 0
    if os.path.isdir(DEPS):
        shutil.rmtree(DEPS)
    cmd = [
        sys.executable, "-m", "pip", "install", "--quiet", "--no-index",
        "--find-links", WHEELS, "--target", DEPS, "--no-warn-script-location",
    ] + PKGS
    env = dict(os.environ, PIP_NO_INDEX="1", PIP_DISABLE_PIP_VERSION_CHECK="1")
    res = subprocess.run(cmd, env=env)
    if res.returncode != 0:
        print("pip failed", file=sys.stderr)
        return 2
    for name in os.listdir(DEPS):
        if name.startswith("typing_extensions"):
            p = os.path.join(DEPS, name)
            shutil.rmtree(p) if os.path.isdir(p) else os.remove(p)
    open(STAMP, "w").write("ok\n")
    print("deps installed in", DEPS)
    return 0


if __name__ == "__main__":
    sys.exit(main())
