"""C05 — round trip: deserialize after serialize is the identity on values."""
from __future__ import annotations

import copy
import json

from hypothesis import strategies as st

from apischema import ValidationError, deserialize, serialize

from vlib import build, gen
from vlib import model as M
from vlib import tdcase
from vlib.gen import chance, pick
from vlib.runner import HarnessError
from props.c04 import interesting, vshape

ID = "C05"
TITLE = "Round trip: deserialize after serialize is the identity on values"
RULE = ("Hypothesis draws a type program, an aliaser and additional_properties used on both sides, 3-5 typed values and 3-5 "
        "valid data of the root type.  The bijective fragment is decided per case by the reference model alone "
        "(model.deserialize(model.serialize(v)) == v); cases outside it (overlapping union alternatives, asymmetric skip, "
        "none_as_undefined/None defaults, InitVar, ...) are counted as out_of_fragment and not compared.  Oracle: "
        "deserialize(T, serialize(T, v)) has the same canon (values and runtime classes) as v, also through "
        "json.loads(json.dumps(.)); for accepted data d: d2 = serialize(T, deserialize(T, d)) equals the model's completion of d "
        "with defaults, deserialize(T, d2) equals deserialize(T, d) and serialize(T, deserialize(T, d2)) == d2.  Non-trivial: "
        "the value has an object with an alias / flattened / defaulted field, or a tuple / set / enum, at depth >= 2.  "
        "Distinct = hash(type shape, value shape, aliaser).")
ASSUMPTIONS = ["the fragment is delimited by the model, never by the implementation under test"]
BUDGET = {"quick": 1100, "thorough": 12000}
SHARDS = {"quick": 8, "thorough": 16}
MIN_NONTRIVIAL = {"quick": 1000, "thorough": 20000}
TECHNIQUE = "property-based testing (Hypothesis): round-trip identities over generated types, values and data; fragment delimited by the reference model"
LEVEL_TEXT = ("Exploration: ~40k (quick) / ~700k (thorough) round trips value->JSON->value and data->value->JSON->value->JSON "
              "on generated programs, compared by canonical form including runtime classes.")
LEVEL_NOTE = "Trusted: reference model for fragment delimitation and completion-with-defaults; canon()."


@st.composite
def strategy_(draw, tier):
    cfg = {"max_depth": 3 if tier == "quick" else 4, "field_conv": True, "generics": True, "lit_in_union": False, "unsup": False, "fall_back": False, "std": True}
    prog = draw(gen.programs(cfg))
    opts = {"aliaser": pick(draw, ["id", "camel", "pfx", "upper"]), "additional_properties": chance(draw, 0.25)}
    values = [gen.perturb_value(draw, prog, prog["root"], gen.value_for(draw, prog, prog["root"])) for _ in range(draw(st.integers(3, 5)))]
    data = [gen.valid(draw, prog, prog["root"], opts["aliaser"]) for _ in range(draw(st.integers(3, 5)))]
    return {"prog": prog, "opts": opts, "values": values, "data": data}


def strategy(tier):
    return strategy_(tier)


describe = tdcase.describe


def evaluate(case, ctx):
    prog, opts = case["prog"], case["opts"]
    try:
        b = build.load(prog)
    except Exception as e:
        raise HarnessError(f"generated program does not build: {e!r}\n{build.render(prog)}")
    try:
        _evaluate(case, ctx, b, prog, opts)
    finally:
        b.close()


def _evaluate(case, ctx, b, prog, opts):
    al = build.ALIASERS[opts["aliaser"]]
    kw = {"aliaser": al, "additional_properties": bool(opts.get("additional_properties"))}
    tp, root = b.root, prog["root"]
    model = M.Model(prog, M.Opts(aliaser=opts["aliaser"], additional_properties=kw["additional_properties"]))
    sopts = M.SerOpts(aliaser=opts["aliaser"], additional_properties=kw["additional_properties"])
    node = tdcase.node_sig(prog, root)
    for vc in case["values"]:
        ctx.count()
        single = {"prog": prog, "opts": opts, "values": [vc], "data": []}
        try:
            real = b.value(vc)
        except Exception as e:
            raise HarnessError(f"cannot build value {vc!r}: {e!r}\n{b.source}")
        if not M.canon_eq(M.canon(real), vc):
            ctx.h("value_not_reconstructible")
            continue
        try:
            img = M.plain(model.serialize(root, vc, sopts))
            verdict, back = model.deserialize(root, img)
        except (M.Unspecified, M.Mismatch):
            ctx.h("unspecified")
            continue
        if verdict != "ok" or not M.canon_eq(back, vc):
            ctx.h("out_of_fragment")
            continue
        ctx.h("in_fragment")
        try:
            out = serialize(tp, real, **kw)
            r1 = deserialize(tp, copy.deepcopy(out), **kw)
            r2 = deserialize(tp, json.loads(json.dumps(out)), **kw)
        except ValidationError as e:
            ctx.violation({"rt": "value", "kind": "rejected", "root": node}, single,
                          f"serialize({real!r}) is rejected by deserialize: {e.errors!r}"[:800])
            continue
        except Exception as e:
            ctx.violation({"rt": "value", "kind": "crash", "exc": type(e).__name__}, single, f"{e!r} on {real!r}"[:500])
            continue
        for r, how in ((r1, "direct"), (r2, "json")):
            if not M.canon_eq(M.canon(r), vc):
                ctx.violation({"rt": "value", "kind": "not_identity", "via": how, "root": node}, single,
                              f"v = {real!r}\nserialize -> {tdcase.compact(out, 300)}\ndeserialize -> {r!r}"[:1000])
                break
        if interesting(vc) or _has_alias_or_default(prog, vc):
            ctx.nontriv([tdcase.shape(root, prog), vshape(vc), opts["aliaser"]])
            ctx.sample({"type": b.source.split("import uuid, datetime, decimal, pathlib, ipaddress")[-1].strip()[-600:],
                        "options": opts, "value": repr(real)[:200], "image": out})
    for d in case["data"]:
        ctx.count()
        single = {"prog": prog, "opts": opts, "values": [], "data": [d]}
        try:
            verdict, v = model.deserialize(root, d)
            if verdict != "ok":
                ctx.h("data_rejected_by_model")
                continue
            exp_d2 = M.plain(model.serialize(root, v, sopts))
            verdict2, v2 = model.deserialize(root, exp_d2)
        except (M.Unspecified, M.Mismatch):
            ctx.h("unspecified")
            continue
        if verdict2 != "ok" or not M.canon_eq(v2, v):
            ctx.h("out_of_fragment")
            continue
        try:
            val = deserialize(tp, copy.deepcopy(d), **kw)
            d2 = serialize(tp, val, **kw)
            val2 = deserialize(tp, copy.deepcopy(d2), **kw)
            d3 = serialize(tp, val2, **kw)
        except Exception as e:
            ctx.violation({"rt": "data", "kind": "crash_or_reject", "exc": type(e).__name__, "root": node}, single, f"{e!r}"[:500])
            continue
        if not M.json_eq(model.serialize(root, v, sopts), d2):
            ctx.violation({"rt": "data", "kind": "not_completion", "root": node}, single,
                          f"d = {tdcase.compact(d, 300)}\nexpected d completed with defaults {tdcase.compact(exp_d2, 300)}\ngot {tdcase.compact(d2, 300)}")
        elif not M.canon_eq(M.canon(val2), M.canon(val)):
            ctx.violation({"rt": "data", "kind": "redeserialize_differs", "root": node}, single, f"{val!r} != {val2!r}"[:600])
        elif not M.json_eq(model.serialize(root, v, sopts), d3):
            ctx.violation({"rt": "data", "kind": "not_fixpoint", "root": node}, single, f"{d2!r} != {d3!r}"[:600])
        ctx.h("data_in_fragment")


def _as_model(x):
    return x


def _has_alias_or_default(prog, c, depth=0) -> bool:
    if not isinstance(c, list) or not c or depth > 6:
        return False
    if c[0] == "obj":
        cd = next(x for x in prog["classes"] if x["name"] == c[1])
        if any(f.get("alias") or f.get("agg") or f.get("default") is not None for f in cd["fields"]):
            return True
        return any(_has_alias_or_default(prog, v, depth + 1) for v in c[2].values())
    if c[0] in ("list", "tuple"):
        return any(_has_alias_or_default(prog, v, depth + 1) for v in c[1])
    if c[0] == "dict":
        return any(_has_alias_or_default(prog, v, depth + 1) for _, v in c[1])
    return False
