"""C06 — deserialize and deserialization_schema agree on what is valid."""
from __future__ import annotations

import copy
import re

from hypothesis import strategies as st

from apischema import ValidationError, deserialize
from apischema.json_schema import deserialization_schema

from vlib import build, gen, jsoracle
from vlib import model as M
from vlib import tdcase
from vlib.gen import chance, pick
from vlib.runner import HarnessError

ID = "C06"
TITLE = "deserialize and deserialization_schema agree on what is valid"
RULE = ("Hypothesis draws a type program, options (additional_properties, aliaser, all_refs) and 5-12 data per type (valid, single "
        "mutants, multi-mutants, atoms, random JSON).  The statement's common semantic domain is enforced by construction: patterns are "
        "^-anchored, data with integer-valued floats are skipped (counted), fall_back_on_default and coercion are off, programs either "
        "contain set types (then no explicit unique constraint is generated and uniqueItems is stripped from the schema) or explicit "
        "unique constraints.  Oracle: jsonschema.Draft202012Validator(deserialization_schema(T, same options)).is_valid(d) <=> "
        "deserialize(T, d, same options) returns; the schema must first pass the 2020-12 meta-schema.  Non-trivial: the datum is valid or a "
        "single mutant of a valid datum and the schema has >= 2 applicator keywords.  Distinct = hash(type shape, datum shape, verdict).")
ASSUMPTIONS = ["jsonschema 4.26 Draft 2020-12 semantics is the reference for 'standard JSON Schema semantics'; format is annotation-only there by default",
               "uniqueItems with bool/number mixes ([true, 1]) compares by Python equality in apischema and by JSON equality in the validator: data are generated so that both agree"]
BUDGET = {"quick": 1000, "thorough": 9000}
SHARDS = {"quick": 8, "thorough": 16}
MIN_NONTRIVIAL = {"quick": 1500, "thorough": 30000}
TECHNIQUE = "property-based testing (Hypothesis): differential between deserialize and an external JSON Schema validator (jsonschema) on the generated schema"
LEVEL_TEXT = ("Exploration: ~30k (quick) / ~1M (thorough) (type, options, datum) cases; each verdict of deserialize is compared with the verdict of the "
              "jsonschema reference validator on deserialization_schema generated with the same options; disagreements are localised and bucketed by keyword.")
LEVEL_NOTE = "Trusted: jsonschema 4.26 (offline wheel), its bundled meta-schemas. Data restricted to the statement's common semantic domain."
APPLICATORS = {"properties", "items", "prefixItems", "anyOf", "oneOf", "allOf", "additionalProperties", "patternProperties", "$ref"}


@st.composite
def strategy_(draw, tier):
    sets = chance(draw, 0.5)
    cfg = {"max_depth": 3 if tier == "quick" else 4, "field_conv": True, "generics": True, "fall_back": False, "explicit_unique": not sets}
    prog = draw(gen.programs(cfg))
    opts = {"additional_properties": chance(draw, 0.3), "fall_back_on_default": False,
            "aliaser": pick(draw, ["id", "id", "camel", "pfx"]), "coerce": False, "all_refs": pick(draw, [None, True, False])}
    tdcase.draw_root_schema(draw, prog, opts)
    n = draw(st.integers(5, 12))
    data = []
    for _ in range(n):
        d, tag = gen.data_for(draw, prog, prog["root"], opts["aliaser"], (35, 35, 10, 20))
        data.append({"d": d, "tag": tag})
    return {"prog": prog, "opts": opts, "data": data}


def strategy(tier):
    return strategy_(tier)


describe = tdcase.describe


def has_kind(prog, t, kinds, seen=None) -> bool:
    seen = seen if seen is not None else set()
    k = t["k"]
    if k in kinds:
        return True
    if k == "cls":
        if t["i"] in seen:
            return False
        seen.add(t["i"])
        return any(has_kind(prog, f["t"], kinds, seen) for f in prog["classes"][t["i"]]["fields"]) or \
            any(has_kind(prog, x, kinds, seen) for x in t.get("args", []))
    if k == "newtype":
        return has_kind(prog, prog["newtypes"][t["i"]]["of"], kinds, seen)
    return any(has_kind(prog, t[key], kinds, seen) for key in ("of", "key", "val") if isinstance(t.get(key), dict)) or \
        any(has_kind(prog, x, kinds, seen) for key in ("alts", "items", "args") for x in t.get(key, []))


def has_unique_constraint(prog) -> bool:
    import json
    return '"unique": true' in json.dumps(prog)


def schema_for(tp, opts, kw):
    skw = {"additional_properties": kw["additional_properties"], "aliaser": kw["aliaser"]}
    if kw.get("schema") is not None:
        skw["schema"] = kw["schema"]  # the per-call schema of the root
    if opts.get("all_refs") is not None:
        skw["all_refs"] = opts["all_refs"]
    return deserialization_schema(tp, **skw)


def accepts(tp, d, kw):
    try:
        deserialize(tp, copy.deepcopy(d), **kw)
        return True
    except ValidationError:
        return False
    except Exception:
        return None


def evaluate(case, ctx):
    prog, opts = case["prog"], case["opts"]
    try:
        b = build.load(prog)
    except Exception as e:
        raise HarnessError(f"generated program does not build: {e!r}\n{build.render(prog)}")
    try:
        _evaluate(case, ctx, b, prog, opts)
    finally:
        b.close()


def _evaluate(case, ctx, b, prog, opts):
    kw = tdcase.api_kwargs(opts)
    tp = b.root
    sets = has_kind(prog, prog["root"], ("set", "frozenset"))
    if sets and has_unique_constraint(prog):
        ctx.h("discarded:set_and_unique")
        return
    try:
        schema = schema_for(tp, opts, kw)
    except Exception as e:
        ctx.count()
        ctx.violation({"kind": "schema_generation_crash", "exc": type(e).__name__, "msg": re.sub(r"[A-Za-z_]*\d+[A-Za-z_0-9]*", "N", str(e))[:60],
                       **tdcase.schema_features(prog)},
                      {"prog": prog, "opts": opts, "data": []}, repr(e))
        return
    bad = jsoracle.check_schema(schema)
    if bad:
        ctx.count()
        ctx.violation({"kind": "invalid_schema", "msg": bad.split(":")[-1][:50]}, {"prog": prog, "opts": opts, "data": []}, bad)
        return
    if sets:
        schema = jsoracle.strip_keyword(schema, "uniqueItems")
    v = jsoracle.validator(schema)
    napp = len(jsoracle.keywords(schema) & APPLICATORS)
    for kwd in jsoracle.keywords(schema):
        ctx.h("kw:" + kwd)
    for item in case["data"]:
        d, tag = item["d"], item.get("tag", "?")
        if jsoracle.has_int_valued_float(d):
            ctx.h("skipped:int_valued_float")
            continue
        ctx.count()
        impl = accepts(tp, d, kw)
        if impl is None:
            ctx.h("crash_routed_to_C03")
            continue
        try:
            sch = v.is_valid(d)
        except Exception as e:
            ctx.violation({"kind": "validator_error", "exc": type(e).__name__}, {"prog": prog, "opts": opts, "data": [item]}, repr(e)[:300])
            continue
        ctx.h(f"{tag.split(':')[0]}:{'ok' if impl else 'err'}")
        if napp >= 2 and (tag == "valid" or tag.startswith("mutant:")):
            ctx.nontriv([tdcase.shape(prog["root"], prog), tdcase.dshape(d), impl])
            ctx.sample({"type": b.source.split("ROOT = ")[-1].strip(), "options": opts, "datum": d, "deserialize_accepts": impl,
                        "schema_keywords": sorted(jsoracle.keywords(schema))[:12]})
        if impl != sch:
            skw = tdcase.sub_kwargs(kw)  # localisation below the root: the per-call schema becomes a constraint of the node
            lt, ld, lc = localize(b, prog, prog["root"], d, opts.get("root_schema"), skw, opts, sets)
            ltp = b.typeof(tdcase.wrap_c(lt, lc))
            lschema = schema_for(ltp, opts, skw)
            if sets:
                lschema = jsoracle.strip_keyword(lschema, "uniqueItems")
            kwd = jsoracle.first_error_keyword(jsoracle.validator(lschema), ld) if impl else None
            sig = {"dir": "schema_rejects" if impl else "schema_accepts", "node": tdcase.node_sig(prog, tdcase.wrap_c(lt, lc)),
                   "datum": tdcase.json_class(ld), "keyword": kwd}
            if opts.get("additional_properties"):
                sig["additional_properties"] = True
            lk = M.strip(lt, prog)
            if lk["k"] == "cls":
                lcd = prog["classes"][lk["i"]]
                # a flattened field in the class itself or in a class only reachable through one of its aggregate
                # (pattern / additional properties) fields, whose items the localisation does not enter
                agg_reach = {j for f in lcd["fields"] if f.get("agg") not in (None, "flatten")
                             for k_, j in tdcase.reachable_named(prog, f["t"], "deserialization") if k_ == "cls"}
                sig["flatten"] = any(f.get("agg") == "flatten" for f in lcd["fields"]) or \
                    any(f.get("agg") == "flatten" for j in agg_reach for f in prog["classes"][j]["fields"])
                if sig["flatten"]:
                    # known finding "flattened objects": re-evaluate under the neutraliser
                    try:
                        sch2 = jsoracle.validator(jsoracle.neutralise_flatten(schema)).is_valid(d)
                    except Exception:
                        sch2 = sch
                    if sch2 != impl:
                        sig["survives_neutraliser"] = True
                    else:
                        sig["neutralised"] = True
                        sig.pop("keyword", None)
                        sig.pop("additional_properties", None)
            if lk["k"] == "map" and not impl and isinstance(ld, dict):
                ktp = b.typeof(lk["key"])
                if any(accepts(ktp, key, skw) is False for key in ld):
                    sig["cause"] = "key_constraint"
            ctx.violation(sig, {"prog": prog, "opts": opts, "data": [item]},
                          f"deserialize {'accepts' if impl else 'rejects'}, schema {'accepts' if sch else 'rejects'}; localised at "
                          f"{build.texpr(tdcase.wrap_c(lt, lc), prog)} <- {tdcase.compact(ld, 200)}\nschema there: {tdcase.compact(lschema, 700)}")


def localize(b, prog, t, d, c, kw, opts, sets, depth=0):
    if depth > 12:
        return t, d, c
    kids = list(tdcase.children(prog, t, d, opts.get("aliaser", "id"), c))
    if t["k"] in ("union", "opt"):
        kids = [(a, d, c) for a in M.union_alts(t) if a["k"] not in ("unsup", "undefined", "none")]
    for (ct, cdatum, cc) in kids:
        try:
            ctp = b.typeof(tdcase.wrap_c(ct, cc))
            impl = accepts(ctp, cdatum, kw)
            s = schema_for(ctp, opts, kw)
            if sets:
                s = jsoracle.strip_keyword(s, "uniqueItems")
            sch = jsoracle.validator(s).is_valid(cdatum)
        except Exception:
            continue
        if impl is not None and impl != sch:
            return localize(b, prog, ct, cdatum, cc, kw, opts, sets, depth + 1)
    return t, d, c
