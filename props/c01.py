"""C01 — deserialize accepts exactly conforming data and builds the typed value.

Oracle: the reference model (vlib/model.py), both directions; UNSPECIFIED cases are skipped.
"""
from __future__ import annotations

import copy

import apischema
from apischema import ValidationError, deserialization_method, deserialize

from vlib import build
from vlib import model as M
from vlib import tdcase
from vlib.runner import HarnessError

ID = "C01"
TITLE = "Deserialization accepts exactly conforming data and builds the typed value"
RULE = ("Hypothesis draws a type program (descriptor grammar of DESIGN 1.2: primitives, Optional/Union, "
        "collections, fixed/variadic tuples, mappings, Literal, Enum, NewType, Annotated constraints, "
        "dataclass/NamedTuple/TypedDict objects with defaults, aliases, flatten, properties, required, skip, "
        "none_as_undefined, Undefined, init=False, InitVar, recursion), options (additional_properties, "
        "fall_back_on_default, aliaser) and 4-10 data per type (valid by construction, 1 planted mutation, "
        "2-4 mutations, atoms, random JSON).  A case is one (type, options, datum).  Non-trivial: the compiled "
        "method tree has >= 2 distinct non-primitive node classes AND the datum is accepted with >= 1 container "
        "level or rejected below the root (the root JSON class is the expected one).  Distinct = hash of "
        "(type shape, datum shape, verdict).")
ASSUMPTIONS = [
    "reference model implements only documented rules (DESIGN Appendix A); UNSPECIFIED cases are skipped",
    "exceptions other than ValidationError are C03's subject and are not counted against C01",
]
BUDGET = {"quick": 1200, "thorough": 20000}
SHARDS = {"quick": 8, "thorough": 16}
MIN_NONTRIVIAL = {"quick": 2000, "thorough": 50000}
PRIMITIVE_NODES = {"StrMethod", "IntMethod", "FloatMethod", "BoolMethod", "NoneMethod", "AnyMethod",
                   "ConstrainedStrMethod", "ConstrainedIntMethod", "ConstrainedFloatMethod", "Field",
                   "RawConstructor", "RawConstructorCopy", "NoConstructor", "FieldsConstructor",
                   "MinimumConstraint", "MaximumConstraint", "ExclusiveMinimumConstraint",
                   "ExclusiveMaximumConstraint", "MultipleOfConstraint", "MinLengthConstraint",
                   "MaxLengthConstraint", "PatternConstraint", "MinItemsConstraint", "MaxItemsConstraint",
                   "UniqueItemsConstraint", "MinPropertiesConstraint", "MaxPropertiesConstraint"}


def strategy(tier):
    cfg = {"max_depth": 3 if tier == "quick" else 4, "field_conv": True, "std": True, "leaf_validators": True, "generics": True, "root_schema": True, "class_validators": True}
    return tdcase.td_cases(cfg, n_data=(4, 10))


describe = tdcase.describe


def run_impl(tp, d, kw, method=None):
    """-> ("ok", value) | ("err", ValidationError) | ("crash", exc)"""
    d = copy.deepcopy(d)
    try:
        return "ok", (method(d) if method is not None else deserialize(tp, d, **kw))
    except ValidationError as e:
        return "err", e
    except RecursionError as e:
        return "crash", e
    except Exception as e:  # routed to C03
        return "crash", e


def compare(b, model, t, d, c, kw, method=None, percall=False):
    """None if model and implementation agree (or UNSPECIFIED), else (dir, detail).  `percall`: the constraints c
    reach the implementation through the schema= argument already in kw, not through an Annotated wrapper."""
    try:
        verdict, val = model.deserialize(t, d, c)
    except M.Unspecified:
        return None
    tp = b.typeof(t if percall else tdcase.wrap_c(t, c))
    got, res = run_impl(tp, d, kw, method)
    if got == "crash":
        return None
    if verdict == "ok" and got == "err":
        return "impl_rejects", f"model accepts, apischema: {res.errors!r}"
    if verdict == "err" and got == "ok":
        return "impl_accepts", f"model rejects ({res_errs(val)}), apischema returns {res!r}"
    if verdict == "ok":
        rc = M.canon(res)
        if not M.canon_eq(rc, val):
            return "value_differs", f"expected {tdcase.compact(val)} got {tdcase.compact(rc)}"
    return None


def res_errs(e):
    try:
        return e.flat()[:3]
    except Exception:
        return "?"


def localize(b, model, t, d, c, kw, dyn, depth=0):
    if depth > 12:
        return t, d, c
    for (ct, cdatum, cc) in tdcase.children(model.prog, t, d, dyn, c):
        try:
            dis = compare(b, model, ct, cdatum, cc, kw)
        except Exception:
            dis = None
        if dis is not None:
            return localize(b, model, ct, cdatum, cc, kw, dyn, depth + 1)
    return t, d, c


def evaluate(case, ctx):
    prog, opts = case["prog"], case["opts"]
    try:
        b = build.load(prog)
    except Exception as e:
        raise HarnessError(f"generated program does not build: {e!r}\n{build.render(prog)}")
    try:
        _evaluate(case, ctx, b, prog, opts)
    finally:
        b.close()


def _evaluate(case, ctx, b, prog, opts):
    kw = tdcase.api_kwargs(opts)
    rc = opts.get("root_schema")
    model = M.Model(prog, M.Opts(**{k: v for k, v in opts.items() if k != "root_schema"}))
    tp = b.root
    try:
        method = deserialization_method(tp, **kw)
        classes = tdcase.tree_classes(method.__self__)
    except Exception as e:
        ctx.count()
        ctx.violation({"dir": "compile_crash", "exc": type(e).__name__, "msg": str(e)[:80]},
                      {"prog": prog, "opts": opts, "data": []}, repr(e))
        return
    nonprim = {c for c in classes if c not in PRIMITIVE_NODES}
    for c in set(classes):
        ctx.h("node:" + c)
    if rc:
        ctx.h("per_call_schema")
    for item in case["data"]:
        d, tag = item["d"], item.get("tag", "?")
        ctx.count()
        try:
            verdict, val = model.deserialize(prog["root"], d, rc)
        except M.Unspecified as u:
            ctx.h("unspecified")
            continue
        ctx.h(f"data:{tag.split(':')[0]}:{verdict}")
        dis = None
        for meth in (None, method):
            dis = compare(b, model, prog["root"], d, rc, kw, meth, percall=True)
            if dis is not None:
                break
        if run_impl(tp, d, kw)[0] == "crash":
            ctx.h("crash_routed_to_C03")
        root_ok = _root_class_ok(prog, prog["root"], d)
        if len(nonprim) >= 2 and root_ok and (
                (verdict == "ok" and isinstance(d, (list, dict)) and len(d) > 0) or verdict == "err"):
            ctx.nontriv([tdcase.shape(prog["root"], prog), tdcase.dshape(d), verdict])
            ctx.sample({"type": b.source.split("ROOT = ")[-1].strip(), "options": opts, "datum": d,
                        "model": verdict, "nodes": sorted(nonprim)[:8]})
        if dis is not None:
            lt, ld, lc = localize(b, model, prog["root"], d, rc, tdcase.sub_kwargs(kw), opts.get("aliaser", "id"))
            sig = {"dir": dis[0], "node": tdcase.node_sig(prog, tdcase.wrap_c(lt, lc)),
                   "datum": tdcase.json_class(ld)}
            ctx.violation(sig, {"prog": prog, "opts": opts, "data": [item]},
                          f"{dis[1]}\nlocalised at type {build.texpr(tdcase.wrap_c(lt, lc), prog)} datum {tdcase.compact(ld)}")


def _root_class_ok(prog, t, d) -> bool:
    t = M.strip(t, prog)
    k = t["k"]
    if k in ("list", "set", "frozenset", "vartuple", "tuple"):
        return isinstance(d, list)
    if k in ("map", "cls"):
        return isinstance(d, dict)
    if k in ("opt", "union", "any"):
        return True
    return not isinstance(d, (list, dict))

TECHNIQUE = "property-based testing (Hypothesis): generated type programs x generated data vs independent reference interpreter"
LEVEL_TEXT = ("Exploration: every run generates ~60k (quick) / ~2M (thorough) (type, options, datum) cases from a grammar of type "
              "programs and compares apischema's verdict and typed result with an independent reference model in both directions. "
              "Held on everything explored; no proof of absence.")
LEVEL_NOTE = ("Trusted: the reference model (vlib/model.py, documented rules only, UNSPECIFIED where docs are silent), the descriptor->source "
              "renderer, Hypothesis. Types outside the grammar (depth > 4, exotic typing constructs) are not explored.")
