"""C13 — union dispatch shortcuts equal try-each-alternative semantics.

Metamorphic oracle evaluated with apischema itself: deserialize(Union[A1..An], d) accepts iff some
deserialize(Ai, d) accepts and equals the first accepting one; discriminated unions equal the mapped
alternative; serialization of a union value equals serialization with the first matching alternative.
"""
from __future__ import annotations

import copy

from hypothesis import strategies as st

from apischema import ValidationError, deserialization_method, deserialize, serialize

from vlib import build, gen
from vlib import model as M
from vlib import tdcase
from vlib.gen import chance, pick
from vlib.runner import HarnessError

ID = "C13"
TITLE = "Union dispatch shortcuts equal try-each-alternative semantics"
RULE = ("Hypothesis draws a program whose root is a Union / Optional of 2-4 alternatives biased to overlap (int/float/bool, "
        "str vs Literal vs str-Enum, List vs Tuple vs Set, two objects sharing field names, nested unions, Unsupported members), "
        "or a discriminated union (Annotated discriminator with default / explicit mapping, inherited @discriminator, TypedDict "
        "members), options (incl. coerce) and 6-12 data (valid data of each alternative, mutants, atoms).  Oracle (no model): the "
        "union accepts iff some alternative alone accepts, with a canon-equal value to the first accepting alternative; "
        "discriminated: equals deserialize(A_k, d without/with tag) for the mapped k, rejected when the tag is absent/unknown/unhashable; "
        "serialize(Union, v) == serialize(A_j, v) (+ discriminator key) for the first alternative whose class matches, and it "
        "round-trips.  Non-trivial: >= 2 alternatives accept the datum's JSON class, or the compiled strategy is a shortcut "
        "(UnionByTypeMethod / OptionalMethod / DiscriminatorMethod).  Distinct = hash(type shape, datum shape, accepting set).")
ASSUMPTIONS = ["alternatives evaluated alone go through the same public deserialize (differential / metamorphic relation, not a model)"]
BUDGET = {"quick": 900, "thorough": 14000}
SHARDS = {"quick": 8, "thorough": 16}
MIN_NONTRIVIAL = {"quick": 1500, "thorough": 30000}
TECHNIQUE = "property-based testing (Hypothesis): metamorphic try-each-alternative oracle over generated overlapping and discriminated unions"
LEVEL_TEXT = ("Exploration: ~55k (quick) / ~1.5M (thorough) (union type, options, datum) cases compared with the try-in-order semantics "
              "computed with apischema on each alternative alone; discriminated and tagged unions compared with the mapped alternative.")
LEVEL_NOTE = "Trusted: deserialize on a single alternative (decided by C01), the canon comparison. TaggedUnion covered by a fixed family of programs."

OVERLAP_FAMILIES = [
    [{"k": "int"}, {"k": "float"}, {"k": "bool"}],
    [{"k": "str"}, {"k": "lit", "values": ["a", "b"]}, {"k": "lit", "values": ["", 1]}],
    [{"k": "float"}, {"k": "str"}, {"k": "none"}],
    [{"k": "list", "sp": "List", "of": {"k": "int"}}, {"k": "vartuple", "sp": "Tuple", "of": {"k": "float"}},
     {"k": "tuple", "sp": "Tuple", "items": [{"k": "int"}, {"k": "int"}]}, {"k": "set", "sp": "Set", "of": {"k": "int"}}],
    [{"k": "map", "sp": "Dict", "key": {"k": "str"}, "val": {"k": "int"}}, {"k": "map", "sp": "Mapping", "key": {"k": "str"}, "val": {"k": "any"}}],
    [{"k": "ann", "of": {"k": "int"}, "c": {"min": 2}}, {"k": "ann", "of": {"k": "int"}, "c": {"max": 0}}, {"k": "float"}],
    [{"k": "ann", "of": {"k": "str"}, "c": {"pattern": "^a"}}, {"k": "ann", "of": {"k": "str"}, "c": {"max_len": 1}}],
]


@st.composite
def union_programs(draw, cfg):
    g = gen.TypeGen(draw, cfg)
    n = draw(st.integers(2, 4))
    mode = draw(st.integers(0, 99))
    alts = []
    if mode < 35:
        fam = pick(draw, OVERLAP_FAMILIES)
        alts = [copy.deepcopy(x) for x in draw(st.lists(st.sampled_from(fam), min_size=2, max_size=min(n, len(fam)), unique_by=repr))]
        if chance(draw, 0.4):
            alts.insert(draw(st.integers(0, len(alts))), g.type(1))
    elif mode < 55:
        # objects sharing field names: second class repeats fields of the first with tweaks
        i = g.new_class(1, flavor=pick(draw, ["dataclass", "dataclass", "namedtuple", "typeddict"]))
        cd = g.prog["classes"][i]
        cd2 = copy.deepcopy(cd)
        cd2["name"] = f"C{g.uid()}"
        cd2.pop("dep_req", None)
        for f in cd2["fields"]:
            if f.get("agg") is None and f.get("kind", "normal") == "normal" and chance(draw, 0.4) and cd2["flavor"] != "typeddict":
                if f.get("default") is None:
                    pass
                f["t"] = g.leaf()
                f.pop("default", None)
                f.pop("c", None)
                f.pop("none_as_undefined", None)
                f.pop("fall_back", None)
                f.pop("required", None)
                if f.get("skip"):
                    f.pop("skip")
        if cd2["flavor"] in ("dataclass", "namedtuple"):
            cd2["fields"].sort(key=lambda f: 2 if f.get("kind") == "init_false" else (0 if f.get("default") is None else 1))
        if not any(f.get("agg") == "flatten" for f in cd2["fields"]):
            g.prog["classes"].append(cd2)
            g.prog["order"].append(len(g.prog["classes"]) - 1)
            alts = [{"k": "cls", "i": i}, {"k": "cls", "i": len(g.prog["classes"]) - 1}]
        else:
            alts = [{"k": "cls", "i": i}, g.type(1)]
        if chance(draw, 0.4):
            alts.append(g.type(1))
    else:
        alts = [g.type(draw(st.integers(0, 2))) for _ in range(n)]
    if cfg.get("unsup", True) and chance(draw, 0.1):
        alts.insert(draw(st.integers(0, len(alts))), {"k": "unsup", "of": {"k": "int"}})
    if chance(draw, 0.2):
        alts.insert(draw(st.integers(0, len(alts))), {"k": "none"})
    if len([a for a in alts if a["k"] != "unsup"]) < 2:
        alts.append({"k": "str"})
    root = {"k": "union", "alts": alts}
    g.prog["root"] = root
    return g.prog


def data_fn(draw, prog, t, opts):
    alts = [a for a in t["alts"] if a["k"] not in ("unsup", "undefined")]
    r = draw(st.integers(0, 99))
    dyn = opts["aliaser"]
    if r < 45:
        return gen.valid(draw, prog, pick(draw, alts), dyn), "valid_alt"
    if r < 75:
        d = gen.valid(draw, prog, pick(draw, alts), dyn)
        d, _, kinds = gen.mutants(draw, d, 1)
        return d, "mutant"
    if r < 92:
        return pick(draw, gen.ATOMS + ["1", "true", "", 1.0, 2.0]), "atom"
    return draw(gen.any_json), "random"


@st.composite
def strategy_(draw, tier):
    cfg = {"max_depth": 2}
    prog = draw(union_programs(cfg))
    opts = draw(tdcase.options(coerce=True))
    if not chance(draw, 0.25):
        opts["coerce"] = False
    n = draw(st.integers(6, 12))
    data = []
    for _ in range(n):
        d, tag = data_fn(draw, prog, prog["root"], opts)
        data.append({"d": d, "tag": tag})
    return {"prog": prog, "opts": opts, "data": data}


def strategy(tier):
    return strategy_(tier)


describe = tdcase.describe


def run(tp, d, kw):
    try:
        return "ok", deserialize(tp, copy.deepcopy(d), **kw)
    except ValidationError as e:
        return "err", e
    except Exception as e:
        return "crash", e


def evaluate(case, ctx):
    prog, opts = case["prog"], case["opts"]
    try:
        b = build.load(prog)
    except Exception as e:
        raise HarnessError(f"generated program does not build: {e!r}\n{build.render(prog)}")
    try:
        _evaluate(case, ctx, b, prog, opts)
    finally:
        b.close()


def _evaluate(case, ctx, b, prog, opts):
    kw = tdcase.api_kwargs(opts)
    root = prog["root"]
    tp = b.root
    alts = [a for a in root["alts"] if a["k"] not in ("unsup", "undefined")]
    alt_tps = [b.typeof(a) for a in alts]
    try:
        method = deserialization_method(tp, **kw)
        strategy_cls = method.__self__.__class__.__name__
        inner = method.__self__
        while strategy_cls in ("CoercerMethod", "ValidatorMethod"):
            inner = inner.method
            strategy_cls = inner.__class__.__name__
    except Exception as e:
        ctx.count()
        ctx.violation({"kind": "compile_crash", "exc": type(e).__name__}, {"prog": prog, "opts": opts, "data": []}, repr(e))
        return
    ctx.h("strategy:" + strategy_cls)
    for item in case["data"]:
        d, tag = item["d"], item.get("tag", "?")
        ctx.count()
        single = {"prog": prog, "opts": opts, "data": [item]}
        got, res = run(tp, d, kw)
        if got == "crash":
            ctx.h("crash_routed_to_C03")
            continue
        outcomes = [run(atp, d, kw) for atp in alt_tps]
        if any(o[0] == "crash" for o in outcomes):
            ctx.h("crash_routed_to_C03")
            continue
        accepting = [i for i, o in enumerate(outcomes) if o[0] == "ok"]
        shapes = [tdcase.node_sig(prog, alts[i]) for i in accepting][:3]
        if accepting and got == "err":
            ctx.violation({"dir": "union_rejects", "strategy": strategy_cls, "alt": shapes[0], "datum": tdcase.json_class(d)}, single,
                          f"alternative {build.texpr(alts[accepting[0]], prog)} alone accepts {tdcase.compact(d, 200)}, the union rejects: {res.errors!r}"[:900])
        elif not accepting and got == "ok":
            ctx.violation({"dir": "union_accepts", "strategy": strategy_cls, "datum": tdcase.json_class(d)}, single,
                          f"no alternative accepts {tdcase.compact(d, 200)}, the union returns {res!r}"[:900])
        elif accepting:
            first = outcomes[accepting[0]][1]
            if not M.canon_eq(M.canon(res), M.canon(first)):
                ctx.violation({"dir": "value_differs", "strategy": strategy_cls, "alt": shapes[0], "datum": tdcase.json_class(d)}, single,
                              f"first accepting alternative {build.texpr(alts[accepting[0]], prog)} gives {first!r}, union gives {res!r}"[:900])
        same_class = sum(1 for a in alts if _accepts_class(prog, a, d))
        if same_class >= 2 or strategy_cls in ("UnionByTypeMethod", "OptionalMethod", "DiscriminatorMethod"):
            ctx.nontriv([tdcase.shape(root, prog, 2), tdcase.dshape(d, 2), accepting, bool(opts.get("coerce"))])
            ctx.sample({"type": b.source.split("ROOT = ")[-1].strip(), "options": opts, "datum": d,
                        "accepting_alternatives": accepting, "strategy": strategy_cls})
        ctx.h(f"accepting:{min(len(accepting), 3)}")


def _accepts_class(prog, t, d) -> bool:
    t = M.strip(t, prog)
    k = t["k"]
    if k in ("list", "set", "frozenset", "vartuple", "tuple"):
        return isinstance(d, list)
    if k in ("map", "cls"):
        return isinstance(d, dict)
    if k in ("opt", "union", "any"):
        return True
    if k == "int":
        return isinstance(d, int) and not isinstance(d, bool)
    if k == "float":
        return isinstance(d, (int, float)) and not isinstance(d, bool)
    if k == "str":
        return isinstance(d, str)
    if k == "bool":
        return isinstance(d, bool)
    if k == "none":
        return d is None
    if k in ("lit", "enum"):
        return not isinstance(d, (list, dict))
    return False
