"""C13 — union dispatch shortcuts equal try-each-alternative semantics.

Metamorphic oracle evaluated with apischema itself: deserialize(Union[A1..An], d) accepts iff some
deserialize(Ai, d) accepts and equals the first accepting one; discriminated unions equal the mapped
alternative; serialization of a union value equals serialization with the first matching alternative.
"""
from __future__ import annotations

import copy

from hypothesis import strategies as st

from apischema import ValidationError, deserialization_method, deserialize, serialize

from vlib import build, gen
from vlib import model as M
from vlib import tdcase
from vlib.gen import chance, pick
from vlib.runner import HarnessError

ID = "C13"
TITLE = "Union dispatch shortcuts equal try-each-alternative semantics"
RULE = ("Hypothesis draws a program whose root is a Union / Optional of 2-4 alternatives biased to overlap (int/float/bool, "
        "str vs Literal vs str-Enum, List vs Tuple vs Set, two objects sharing field names, nested unions, Unsupported members), "
        "or (18%) a discriminated union: Annotated[Union[2-3 generated dataclasses with any field feature], discriminator(alias[, explicit "
        "mapping])] - the default mapping being the class names or, in 45% of those cases, a Literal field of each class aliased to the discriminator property, options (incl. coerce, dynamic aliaser) and 6-12 data (valid data of each alternative, mutants, atoms).  Oracle (no model): the "
        "union accepts iff some alternative alone accepts, with a canon-equal value to the first accepting alternative; "
        "discriminated: verdict and value equal deserialize(A_k, d without the tag) for the mapped k (when A_k has pattern / additional "
        "fields that can take the tag itself: only when A_k gives one verdict with and without it), rejected when the tag is "
        "absent / unknown / unhashable; serialize(Union, v) == serialize(A_k, v) + {aliased tag: key}.  Non-trivial: >= 2 alternatives accept the datum's JSON class, or the compiled strategy is a shortcut "
        "(UnionByTypeMethod / OptionalMethod / DiscriminatorMethod).  Distinct = hash(type shape, datum shape, accepting set).")
ASSUMPTIONS = ["alternatives evaluated alone go through the same public deserialize (differential / metamorphic relation, not a model)"]
BUDGET = {"quick": 900, "thorough": 14000}
SHARDS = {"quick": 8, "thorough": 16}
MIN_NONTRIVIAL = {"quick": 1500, "thorough": 30000}
TECHNIQUE = "property-based testing (Hypothesis): metamorphic try-each-alternative oracle over generated overlapping and discriminated unions"
LEVEL_TEXT = ("Exploration: ~55k (quick) / ~1.5M (thorough) (union type, options, datum) cases compared with the try-in-order semantics "
              "computed with apischema on each alternative alone; discriminated unions compared with the mapped alternative (deserialization and serialization).")
LEVEL_NOTE = "Trusted: deserialize on a single alternative (decided by C01), the canon comparison. Not generated: inherited @discriminator, TypedDict members, TaggedUnion."

OVERLAP_FAMILIES = [
    [{"k": "int"}, {"k": "float"}, {"k": "bool"}],
    [{"k": "str"}, {"k": "lit", "values": ["a", "b"]}, {"k": "lit", "values": ["", 1]}],
    [{"k": "float"}, {"k": "str"}, {"k": "none"}],
    [{"k": "list", "sp": "List", "of": {"k": "int"}}, {"k": "vartuple", "sp": "Tuple", "of": {"k": "float"}},
     {"k": "tuple", "sp": "Tuple", "items": [{"k": "int"}, {"k": "int"}]}, {"k": "set", "sp": "Set", "of": {"k": "int"}}],
    [{"k": "map", "sp": "Dict", "key": {"k": "str"}, "val": {"k": "int"}}, {"k": "map", "sp": "Mapping", "key": {"k": "str"}, "val": {"k": "any"}}],
    [{"k": "ann", "of": {"k": "int"}, "c": {"min": 2}}, {"k": "ann", "of": {"k": "int"}, "c": {"max": 0}}, {"k": "float"}],
    [{"k": "ann", "of": {"k": "str"}, "c": {"pattern": "^a"}}, {"k": "ann", "of": {"k": "str"}, "c": {"max_len": 1}}],
]


@st.composite
def union_programs(draw, cfg):
    g = gen.TypeGen(draw, cfg)
    n = draw(st.integers(2, 4))
    mode = draw(st.integers(0, 99))
    alts = []
    if mode < 18 and cfg.get("discriminated", True):
        # discriminated union of 2-3 dataclasses (any generated field feature, incl. flattened / pattern / additional
        # fields), explicit or default (class name) mapping
        idxs = [g.new_class(1, flavor="dataclass") for _ in range(draw(st.integers(2, 3)))]
        alts = [{"k": "cls", "i": i} for i in idxs]
        alias = pick(draw, ["kind", "type", "$t", "kind_of"])
        mapping = {f"k{j}": j for j in range(len(alts))} if chance(draw, 0.6) else None
        disc = {"alias": alias, "mapping": mapping}
        if mapping is None and chance(draw, 0.45):
            # default mapping read from a Literal field of each alternative whose ALIAS is the discriminator property
            # (its Python name differs)
            multi = chance(draw, 0.5)  # several keys for one class: Literal["k0", "k0b"]
            for j, i in enumerate(idxs):
                g.prog["classes"][i]["fields"].append({"n": f"tag_{j}", "t": {"k": "lit", "values": [f"k{j}"] + ([f"k{j}b"] if multi else [])}, "alias": alias,
                                                        "no_override": True, "default": {"c": ["str", f"k{j}"]}})
            disc["literal_field"] = "multi" if multi else True
        g.prog["root"] = {"k": "union", "alts": alts, "disc": disc}
        return g.prog
    if mode < 35:
        fam = pick(draw, OVERLAP_FAMILIES)
        alts = [copy.deepcopy(x) for x in draw(st.lists(st.sampled_from(fam), min_size=2, max_size=min(n, len(fam)), unique_by=repr))]
        if chance(draw, 0.4):
            alts.insert(draw(st.integers(0, len(alts))), g.type(1))
    elif mode < 55:
        # objects sharing field names: second class repeats fields of the first with tweaks
        i = g.new_class(1, flavor=pick(draw, ["dataclass", "dataclass", "namedtuple", "typeddict"]))
        cd = g.prog["classes"][i]
        cd2 = copy.deepcopy(cd)
        cd2["name"] = f"C{g.uid()}"
        cd2.pop("dep_req", None)
        for f in cd2["fields"]:
            if f.get("agg") is None and f.get("kind", "normal") == "normal" and chance(draw, 0.4) and cd2["flavor"] != "typeddict":
                if f.get("default") is None:
                    pass
                f["t"] = g.leaf()
                f.pop("default", None)
                f.pop("c", None)
                f.pop("none_as_undefined", None)
                f.pop("fall_back", None)
                f.pop("required", None)
                if f.get("skip"):
                    f.pop("skip")
        if cd2["flavor"] in ("dataclass", "namedtuple"):
            cd2["fields"].sort(key=lambda f: 2 if f.get("kind") == "init_false" else (0 if f.get("default") is None else 1))
        if not any(f.get("agg") == "flatten" for f in cd2["fields"]):
            g.prog["classes"].append(cd2)
            g.prog["order"].append(len(g.prog["classes"]) - 1)
            alts = [{"k": "cls", "i": i}, {"k": "cls", "i": len(g.prog["classes"]) - 1}]
        else:
            alts = [{"k": "cls", "i": i}, g.type(1)]
        if chance(draw, 0.4):
            alts.append(g.type(1))
    else:
        alts = [g.type(draw(st.integers(0, 2))) for _ in range(n)]
    if cfg.get("unsup", True) and chance(draw, 0.1):
        alts.insert(draw(st.integers(0, len(alts))), {"k": "unsup", "of": {"k": "int"}})
    if chance(draw, 0.2):
        alts.insert(draw(st.integers(0, len(alts))), {"k": "none"})
    if len([a for a in alts if a["k"] != "unsup"]) < 2:
        alts.append({"k": "str"})
    root = {"k": "union", "alts": alts}
    g.prog["root"] = root
    return g.prog


def disc_keys(prog, t):
    disc = t["disc"]
    if disc.get("mapping"):
        return {key: i for key, i in disc["mapping"].items()}
    if disc.get("literal_field"):
        keys = {f"k{j}": j for j in range(len(t["alts"]))}
        if disc["literal_field"] == "multi":
            keys.update({f"k{j}b": j for j in range(len(t["alts"]))})
        return keys
    return {prog["classes"][a["i"]]["name"]: j for j, a in enumerate(t["alts"])}


def data_fn(draw, prog, t, opts):
    alts = [a for a in t["alts"] if a["k"] not in ("unsup", "undefined")]
    r = draw(st.integers(0, 99))
    dyn = opts["aliaser"]
    if t.get("disc"):
        keys = disc_keys(prog, t)
        alias = build.ALIASERS[dyn](t["disc"]["alias"])
        key = pick(draw, sorted(keys))
        d = gen.valid(draw, prog, alts[keys[key]] if r < 80 else pick(draw, alts), dyn)
        if r >= 45 and r < 70:
            d, _, _ = gen.mutants(draw, d, 1)
        if not isinstance(d, dict):
            return d, "disc_mutant"
        d = dict(d)
        if r < 88:
            d[alias] = key
            return d, "disc_tagged"
        if r < 92:
            return d, "disc_untagged"
        d[alias if r < 97 else t["disc"]["alias"]] = pick(draw, ["zz", 1, None, [key], key.upper(), key + " "])
        return d, "disc_bad_tag"
    if r < 45:
        return gen.valid(draw, prog, pick(draw, alts), dyn), "valid_alt"
    if r < 75:
        d = gen.valid(draw, prog, pick(draw, alts), dyn)
        d, _, kinds = gen.mutants(draw, d, 1)
        return d, "mutant"
    if r < 92:
        return pick(draw, gen.ATOMS + ["1", "true", "", 1.0, 2.0]), "atom"
    return draw(gen.any_json), "random"


@st.composite
def strategy_(draw, tier):
    cfg = {"max_depth": 2}
    prog = draw(union_programs(cfg))
    opts = draw(tdcase.options(coerce=True))
    if not chance(draw, 0.25):
        opts["coerce"] = False
    n = draw(st.integers(6, 12))
    data = []
    for _ in range(n):
        d, tag = data_fn(draw, prog, prog["root"], opts)
        data.append({"d": d, "tag": tag})
    return {"prog": prog, "opts": opts, "data": data}


def strategy(tier):
    return strategy_(tier)


describe = tdcase.describe


def run(tp, d, kw):
    try:
        return "ok", deserialize(tp, copy.deepcopy(d), **kw)
    except ValidationError as e:
        return "err", e
    except Exception as e:
        return "crash", e


def evaluate(case, ctx):
    prog, opts = case["prog"], case["opts"]
    try:
        b = build.load(prog)
    except Exception as e:
        raise HarnessError(f"generated program does not build: {e!r}\n{build.render(prog)}")
    try:
        _evaluate(case, ctx, b, prog, opts)
    finally:
        b.close()


def _has_open_fields(cd) -> bool:
    """pattern / additional-properties aggregate fields can swallow the discriminator key itself"""
    return any(isinstance(f.get("agg"), dict) or f.get("agg") == "additional" for f in cd["fields"])


def _evaluate_disc(case, ctx, b, prog, opts):
    kw = tdcase.api_kwargs(opts)
    root, tp = prog["root"], b.root
    alts = root["alts"]
    alt_tps = [b.typeof(a) for a in alts]
    keys = disc_keys(prog, root)
    aliaser = build.ALIASERS[opts.get("aliaser", "id")]
    alias = aliaser(root["disc"]["alias"])
    node = {"mapping": "explicit" if root["disc"].get("mapping") else "literal_field" if root["disc"].get("literal_field") else "default", "coerce": bool(opts.get("coerce")), "aliaser": opts.get("aliaser", "id")}
    try:
        deserialization_method(tp, **kw)
    except Exception as e:
        ctx.count()
        ctx.violation({"kind": "compile_crash", "exc": type(e).__name__, **node}, {"prog": prog, "opts": opts, "data": []}, repr(e))
        return
    ctx.h("strategy:DiscriminatorMethod")
    for item in case["data"]:
        d = item["d"]
        ctx.count()
        single = {"prog": prog, "opts": opts, "data": [item]}
        got, res = run(tp, d, kw)
        if got == "crash":
            ctx.h("crash_routed_to_C03")
            continue
        tagged = isinstance(d, dict) and alias in d
        try:
            k = keys.get(d[alias]) if tagged else None
        except TypeError:  # unhashable tag
            k = None
        if k is None:
            if got == "ok":
                ctx.violation({"dir": "accepted_without_valid_tag", **node, "datum": tdcase.json_class(d)}, single,
                              f"{tdcase.compact(d, 200)} has no valid discriminator {alias!r} (keys {sorted(keys)}), the union returns {res!r}"[:900])
            ctx.h("disc:no_valid_tag")
            continue
        cd = prog["classes"][alts[k]["i"]]
        without = {kk: vv for kk, vv in d.items() if kk != alias}
        o_without = run(alt_tps[k], without, kw)
        o_with = run(alt_tps[k], d, kw)
        if "crash" in (o_without[0], o_with[0]):
            ctx.h("crash_routed_to_C03")
            continue
        if root["disc"].get("literal_field"):
            o_without = o_with  # the discriminator property is a declared (Literal) field of the alternative: it consumes the tag
        sig = {**node, "flatten": any(f.get("agg") == "flatten" for f in cd["fields"]), "open_fields": _has_open_fields(cd), "datum": item.get("tag")}
        if _has_open_fields(cd):
            # the tag may legitimately end up in (or be rejected by) a pattern / additional-properties field: only the
            # cases where the alternative gives the same verdict with and without the tag are decided
            if o_without[0] == o_with[0] != got:
                ctx.violation({"dir": "verdict_differs", **sig}, single,
                              f"mapped alternative {cd['name']} {o_with[0]} {tdcase.compact(d, 200)} with and without the tag, the union: {got} {getattr(res, 'errors', res)!r}"[:900])
        elif o_without[0] != got:
            ctx.violation({"dir": "union_rejects" if got == "err" else "union_accepts", **sig}, single,
                          f"mapped alternative {cd['name']} alone: {o_without[0]} on {tdcase.compact(without, 200)}; the union on the tagged datum: {got} {getattr(res, 'errors', res)!r}"[:900])
        elif got == "ok" and not M.canon_eq(M.canon(res), M.canon(o_without[1])):
            ctx.violation({"dir": "value_differs", **sig}, single, f"mapped alternative gives {o_without[1]!r}, union gives {res!r}"[:900])
        # serialization: the image of the mapped alternative plus the tag, and it comes back
        if got == "ok":
            try:
                skw = {"aliaser": aliaser, "additional_properties": bool(opts.get("additional_properties"))}
                img_u = serialize(tp, res, **skw)
                img_a = serialize(alt_tps[k], res, **skw)
            except Exception as e:
                ctx.h("serialize_raises_routed_to_C04")
            else:
                expect = dict(img_a)
                expect.setdefault(alias, d[alias])
                if img_u != expect and type(res) is alt_tps[k]:
                    ctx.violation({"dir": "serialized_image_differs", **sig}, single,
                                  f"serialize(union, {res!r}) = {img_u!r}; alternative image + tag = {expect!r}"[:900])
        ctx.nontriv([tdcase.shape(root, prog, 2), tdcase.dshape(d, 2), k, node])
        ctx.sample({"type": b.source.split("ROOT = ")[-1].strip(), "options": opts, "datum": d, "mapped": cd["name"], "outcome": got})
        ctx.h("disc:" + got)


def _evaluate(case, ctx, b, prog, opts):
    if prog["root"].get("disc"):
        return _evaluate_disc(case, ctx, b, prog, opts)
    kw = tdcase.api_kwargs(opts)
    root = prog["root"]
    tp = b.root
    # (typing flattens nested unions: Union[A, Optional[B]] is Union[A, B, None], tried in that order)
    alts = [a for a in M.union_alts(root) if a["k"] not in ("unsup", "undefined")]
    alt_tps = [b.typeof(a) for a in alts]
    try:
        method = deserialization_method(tp, **kw)
        strategy_cls = method.__self__.__class__.__name__
        inner = method.__self__
        while strategy_cls in ("CoercerMethod", "ValidatorMethod"):
            inner = inner.method
            strategy_cls = inner.__class__.__name__
    except Exception as e:
        ctx.count()
        ctx.violation({"kind": "compile_crash", "exc": type(e).__name__}, {"prog": prog, "opts": opts, "data": []}, repr(e))
        return
    ctx.h("strategy:" + strategy_cls)
    for item in case["data"]:
        d, tag = item["d"], item.get("tag", "?")
        ctx.count()
        single = {"prog": prog, "opts": opts, "data": [item]}
        got, res = run(tp, d, kw)
        if got == "crash":
            ctx.h("crash_routed_to_C03")
            continue
        outcomes = [run(atp, d, kw) for atp in alt_tps]
        if any(o[0] == "crash" for o in outcomes):
            ctx.h("crash_routed_to_C03")
            continue
        accepting = [i for i, o in enumerate(outcomes) if o[0] == "ok"]
        shapes = [tdcase.node_sig(prog, alts[i]) for i in accepting][:3]
        if accepting and got == "err":
            ctx.violation({"dir": "union_rejects", "strategy": strategy_cls, "alt": shapes[0], "datum": tdcase.json_class(d)}, single,
                          f"alternative {build.texpr(alts[accepting[0]], prog)} alone accepts {tdcase.compact(d, 200)}, the union rejects: {res.errors!r}"[:900])
        elif not accepting and got == "ok":
            ctx.violation({"dir": "union_accepts", "strategy": strategy_cls, "datum": tdcase.json_class(d)}, single,
                          f"no alternative accepts {tdcase.compact(d, 200)}, the union returns {res!r}"[:900])
        elif accepting:
            first = outcomes[accepting[0]][1]
            if not M.canon_eq(M.canon(res), M.canon(first)):
                ctx.violation({"dir": "value_differs", "strategy": strategy_cls, "alt": shapes[0], "datum": tdcase.json_class(d)}, single,
                              f"first accepting alternative {build.texpr(alts[accepting[0]], prog)} gives {first!r}, union gives {res!r}"[:900])
        same_class = sum(1 for a in alts if _accepts_class(prog, a, d))
        if same_class >= 2 or strategy_cls in ("UnionByTypeMethod", "OptionalMethod", "DiscriminatorMethod"):
            ctx.nontriv([tdcase.shape(root, prog, 2), tdcase.dshape(d, 2), accepting, bool(opts.get("coerce"))])
            ctx.sample({"type": b.source.split("ROOT = ")[-1].strip(), "options": opts, "datum": d,
                        "accepting_alternatives": accepting, "strategy": strategy_cls})
        ctx.h(f"accepting:{min(len(accepting), 3)}")


def _accepts_class(prog, t, d) -> bool:
    t = M.strip(t, prog)
    k = t["k"]
    if k in ("list", "set", "frozenset", "vartuple", "tuple"):
        return isinstance(d, list)
    if k in ("map", "cls"):
        return isinstance(d, dict)
    if k in ("opt", "union", "any"):
        return True
    if k == "int":
        return isinstance(d, int) and not isinstance(d, bool)
    if k == "float":
        return isinstance(d, (int, float)) and not isinstance(d, bool)
    if k == "str":
        return isinstance(d, str)
    if k == "bool":
        return isinstance(d, bool)
    if k == "none":
        return d is None
    if k in ("lit", "enum"):
        return not isinstance(d, (list, dict))
    return False
