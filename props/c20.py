"""C20 — concurrent first use from several threads is safe."""
from __future__ import annotations

import json
import os
import sys
import threading

from hypothesis import strategies as st

import apischema
import apischema.deserialization
import apischema.deserialization.methods
import apischema.recursion
import apischema.serialization
import apischema.serialization.methods

from vlib import build
from vlib import model as M
from vlib.gen import chance, pick
from vlib.runner import HarnessError
from vlib.sched import LOCK_TYPES, Deadlock, Scheduler, ThreadingShim, YieldingDict, YieldingLock

ID = "C20"
TITLE = "Concurrent first use from several threads is safe"
RULE = ("Schedules: Hypothesis draws a type shape (plain nested, self-recursive, mutually recursive, generic specialisations, "
        "recursive with conversions; fresh classes for every case), 2-4 threads each performing the FIRST deserialize / serialize / "
        "deserialization_schema / serialization_schema of one of the shape's types, and a schedule: either 0-60 per-yield-point choices or (70%) up to 8 segments [thread, n] that give "
        "one thread the baton for n yield points, the tail being non-preemptive (few, deep preemptions).  The "
        "threads run under a deterministic baton scheduler (vlib/sched.py); yield points are injected from the harness on every "
        "read / write of the recursion-analysis cache (apischema.recursion.recursion_cache), at the entry / exit of the cached "
        "method factories and is_recursive, at the lazy resolution of RecMethod, and on every lock of the library: module-level locks, registries (dicts) of locks and - through a "
        "stand-in for the `threading` module inside apischema - locks created while the schedule runs are all yielding locks, so no "
        "thread blocks on a real lock while holding the baton; a lock never released after 20000 turns of the others is a deadlock.  Oracle: "
        "the per-thread results (canonical value or exception type) of the concurrent phase, of a second sequential pass on the now "
        "warm caches, and of a cold sequential pass after cache.reset() are all equal.  Thorough adds a stress mode with real "
        "preemption (switch interval 1e-6, 8 threads, barrier).  A systematic family (two threads making the same first use, thread 0 preempted k = 0..8 (quick) / 0..30 (thorough) lines "
        "after its first event of each kind, thread 1 then running to completion) is enumerated for every shape, type and direction; "
        "40% of the generated cases run in line-level mode: every source line of apischema executed by a scheduled thread is a "
        "yield point (sys.settrace), segments of up to 4000 lines.  Non-trivial: the schedule has >= 1 context switch between two "
        "threads that both touched the recursion cache, or (line-level) >= 1 switch to a thread that is in the middle of its call.  Distinct = hash(shape, thread ops, effective schedule).")
ASSUMPTIONS = ["the deterministic mode only interleaves at the injected yield points",
               "stress mode failures are genuine but not exactly replayable: their replay file re-runs the stress case"]
BUDGET = {"quick": 250, "thorough": 4000}
FUZZ = {"quick": 0, "thorough": 1000}
SHARDS = {"quick": 8, "thorough": 16}
MIN_NONTRIVIAL = {"quick": 250, "thorough": 5000}
TECHNIQUE = "schedule fuzzing: Hypothesis-generated interleavings replayed by a deterministic baton scheduler with injected yield points; oracle concurrent = warm-after = cold sequential"
LEVEL_TEXT = ("Exploration: ~2000 (quick) / ~64k (thorough) generated schedules over 5 type shapes under a harness-owned scheduler, plus a "
              "real-preemption stress phase in the thorough tier; each schedule's results are compared with warm and cold sequential executions.")
LEVEL_NOTE = "Trusted: vlib/sched.py; interleavings are explored at the injected yield points only (dict operations of the recursion cache, factory entry/exit, lazy method resolution)."

SHAPES = {
    "plain": '''
@dataclass
class Leaf:
    x: int = 0
    tags: List[str] = field(default_factory=list)
@dataclass
class Mid:
    leaf: Leaf
    leaves: List[Leaf] = field(default_factory=list)
    opt: Optional[Leaf] = None
@dataclass
class Top:
    mid: Mid
    mids: Dict[str, Mid] = field(default_factory=dict)
TYPES = {"Top": Top, "Mid": Mid, "ListTop": List[Top]}
DATA = {"Top": {"mid": {"leaf": {"x": 1}}}, "Mid": {"leaf": {}, "leaves": [{"x": 2}]}, "ListTop": [{"mid": {"leaf": {"x": 1}}, "mids": {"a": {"leaf": {}}}}]}
''',
    "self_rec": '''
@dataclass
class Node:
    value: int
    next: Optional["Node"] = None
    children: List["Node"] = field(default_factory=list)
TYPES = {"Node": Node, "ListNode": List[Node], "OptNode": Optional[Node]}
DATA = {"Node": {"value": 1, "next": {"value": 2, "children": [{"value": 3}]}}, "ListNode": [{"value": 1, "next": {"value": 2}}], "OptNode": {"value": 0}}
''',
    "mutual": '''
@dataclass
class A:
    b: Optional["B"] = None
    n: int = 0
@dataclass
class B:
    items: List[A] = field(default_factory=list)
    c: Optional["C"] = None
@dataclass
class C:
    a: Optional[A] = None
    b: Optional[B] = None
TYPES = {"A": A, "B": B, "C": C, "DictC": Dict[str, C]}
DATA = {"A": {"b": {"items": [{"n": 1}], "c": {"a": {"n": 2}}}}, "B": {"items": [{"b": {}}]}, "C": {"a": {}, "b": {"c": {}}}, "DictC": {"k": {"a": {"b": {}}}}}
''',
    "generic": '''
@dataclass
class Box(Generic[T]):
    content: T
    others: List["Box[T]"] = field(default_factory=list)
@dataclass
class Node:
    value: int
    box: Optional[Box["Node"]] = None
TYPES = {"BoxInt": Box[int], "BoxStr": Box[str], "Node": Node, "BoxNode": Box[Node]}
DATA = {"BoxInt": {"content": 1, "others": [{"content": 2}]}, "BoxStr": {"content": "a"}, "Node": {"value": 1, "box": {"content": {"value": 2}}},
        "BoxNode": {"content": {"value": 1}, "others": [{"content": {"value": 3}}]}}
''',
    "conv": '''
class Wrapped:
    def __init__(self, v):
        self.v = v
    def __eq__(self, other):
        return isinstance(other, Wrapped) and other.v == self.v
    def __repr__(self):
        return f"Wrapped({self.v!r})"
@dataclass
class Tree:
    label: Wrapped
    kids: List["Tree"] = field(default_factory=list)
@deserializer
def _wrap(v: int) -> Wrapped:
    return Wrapped(v)
@serializer
def _unwrap(w: Wrapped) -> int:
    return w.v
@dataclass
class Rec:
    me: Optional["Rec"] = None
    w: Optional[Wrapped] = None
TYPES = {"Tree": Tree, "Wrapped": Wrapped, "ListTree": List[Tree], "Rec": Rec}
DATA = {"Tree": {"label": 1, "kids": [{"label": 2}]}, "Wrapped": 3, "ListTree": [{"label": 1}], "Rec": {"me": {"w": 1}}}
''',
}
OPS = ["deserialize", "serialize", "deserialization_schema", "serialization_schema"]
REPO_PREFIX = os.path.realpath(os.path.dirname(apischema.__file__)) + os.sep


@st.composite
def strategy_(draw, tier):
    shape = pick(draw, ["self_rec", "self_rec", "mutual", "mutual", "generic", "conv", "plain"])
    import re
    names = re.findall(r'"(\w+)":', SHAPES[shape].split("TYPES = {")[1].split("}")[0])
    n = draw(st.integers(2, 4))
    threads = [{"op": pick(draw, ["deserialize", "deserialize", "serialize", "deserialization_schema", "serialization_schema"]),
                "type": pick(draw, names)} for _ in range(n)]
    if chance(draw, 0.5):  # same type from every thread: the very first use is shared
        for t in threads:
            t["type"] = threads[0]["type"]
    if chance(draw, 0.3):  # fine-grained: a decision at every yield point
        choices = draw(st.lists(st.integers(0, 3), max_size=60))
    else:  # coarse: a few preemptions, each thread keeping the baton for a run of yield points (then run to completion)
        choices = draw(st.lists(st.tuples(st.integers(0, 3), st.one_of(st.integers(1, 12), st.integers(1, 80))).map(list), max_size=8))
    case = {"shape": shape, "threads": threads, "choices": choices}
    if chance(draw, 0.4):
        # line-level preemption: every source line of apischema is a yield point; segments are long
        case["trace"] = True
        seg = st.tuples(st.integers(0, 3), st.one_of(st.integers(1, 40), st.integers(1, 400), st.integers(1, 4000))).map(list)
        # ... or a preemption placed a few lines AFTER an interesting event of the running thread (PCT-style depth-1/2 bugs)
        after = st.tuples(st.just("after"), st.sampled_from(["rec_method.lazy", "rc.", "is_recursive.", "dmf.", "smf.", "lock", "rlock"]),
                          st.integers(0, 12), st.integers(0, 3)).map(list)
        case["choices"] = draw(st.lists(st.one_of(seg, after, after), max_size=6))
    return case


def strategy(tier):
    return strategy_(tier)


def _type_names(shape):
    import re
    return re.findall(r'"(\w+)":', SHAPES[shape].split("TYPES = {")[1].split("}")[0])


def enumerate_cases(tier):
    """Systematic depth-1 preemptions in line-level mode: two threads make the same first use; thread 0 is
    preempted k lines after its first event of a given kind, thread 1 then runs to completion, thread 0 resumes."""
    ks = range(0, 9) if tier == "quick" else range(0, 31)
    for shape in SHAPES:
        for name in _type_names(shape):
            for op in ("deserialize", "serialize"):
                for tag in ("rec_method.lazy", "rc.", "is_recursive.", "dmf." if op == "deserialize" else "smf."):
                    for k in ks:
                        yield {"shape": shape, "threads": [{"op": op, "type": name}, {"op": op, "type": name}], "trace": True,
                               "choices": [["after", tag, k, 1]]}


def describe(case):
    return SHAPES[case["shape"]] + "\nthreads: " + repr(case["threads"]) + "\nschedule choices: " + repr(case.get("choices"))


# ---------------------------------------------------------------------------------------
# instrumentation (monkey-patching from the harness, restored after every case)
# ---------------------------------------------------------------------------------------

class Instrument:
    def __init__(self, sched: Scheduler):
        self.sched = sched
        self.saved = []
        self.saved_items = []
        self.caches = {}

    def _set(self, obj, name, value):
        self.saved.append((obj, name, getattr(obj, name)))
        setattr(obj, name, value)

    def __enter__(self):
        sched = self.sched
        R = apischema.recursion

        def recursion_cache(checker_cls):
            # stands for the lru_cache'd factory of the library (`return {}`) with instrumented dicts; like functools.lru_cache
            # (bounded form) a miss computes the value outside any lock of its own: a second thread can miss meanwhile, the first
            # value stored stays and the late caller goes away with the one it computed
            d = self.caches.get(checker_cls)
            if d is None:
                sched.yield_point("rc.miss")
                d = YieldingDict()
                d.sched = sched
                d.name = "rc"
                self.caches.setdefault(checker_cls, d)
            return d

        self._set(R, "recursion_cache", recursion_cache)

        def wrap(orig, tag):
            def wrapper(*a, **k):
                sched.yield_point(tag + ".enter")
                try:
                    return orig(*a, **k)
                finally:
                    sched.yield_point(tag + ".exit")
            wrapper.__wrapped__ = getattr(orig, "__wrapped__", orig)
            for attr in ("cache_clear", "cache_info"):
                if hasattr(orig, attr):
                    setattr(wrapper, attr, getattr(orig, attr))
            return wrapper

        self._set(R, "is_recursive", wrap(R.is_recursive, "is_recursive"))
        self._set(apischema.deserialization, "deserialization_method_factory",
                  wrap(apischema.deserialization.deserialization_method_factory, "dmf"))
        self._set(apischema.serialization, "serialization_method_factory",
                  wrap(apischema.serialization.serialization_method_factory, "smf"))
        for mod in (apischema.deserialization.methods, apischema.serialization.methods):
            cls = mod.RecMethod
            name = "deserialize" if hasattr(cls, "deserialize") else "serialize"
            orig = getattr(cls, name)

            def patched(self_, *a, _orig=orig, **k):
                if self_.method is None:
                    sched.yield_point("rec_method.lazy")
                return _orig(self_, *a, **k)

            self._set(cls, name, patched)
        # every lock of the library becomes a yielding lock: the module-level ones that exist now and,
        # through a stand-in for the `threading` module, the ones created while the schedule runs
        shim = ThreadingShim(sched)
        for mname, m in list(sys.modules.items()):
            if m is None or not (mname == "apischema" or mname.startswith("apischema.")):
                continue
            for name, val in list(vars(m).items()):
                if val is threading:
                    self._set(m, name, shim)
                elif val is threading.Lock:
                    self._set(m, name, shim.Lock)
                elif val is threading.RLock:
                    self._set(m, name, shim.RLock)
                elif isinstance(val, LOCK_TYPES):
                    self._set(m, name, YieldingLock(val, sched, "lock:" + name))
                elif type(val) is dict and any(isinstance(v, (YieldingLock,) + LOCK_TYPES) for v in val.values()):
                    # a registry of locks filled before the schedule started (or by an earlier case)
                    self.saved_items.append((val, dict(val)))
                    for k, v in list(val.items()):
                        if isinstance(v, YieldingLock):
                            v = v.real
                        if isinstance(v, LOCK_TYPES):
                            val[k] = YieldingLock(v, sched, "lock:%s[]" % name)
        return self

    def __exit__(self, *exc):
        for obj, name, value in reversed(self.saved):
            setattr(obj, name, value)
        for d, content in self.saved_items:
            for k, v in list(d.items()):  # entries added during the schedule keep their real lock only
                d[k] = content.get(k, v.real if isinstance(v, YieldingLock) else v)


def thread_fn(mod, t):
    tp = mod.TYPES[t["type"]]
    op = t["op"]
    if op == "deserialize":
        return lambda: M.canon(apischema.deserialize(tp, json.loads(json.dumps(mod.DATA[t["type"]]))))
    if op == "serialize":
        val = mod.VALUES[t["type"]]
        return lambda: apischema.serialize(tp, val)
    if op == "deserialization_schema":
        return lambda: json.loads(json.dumps(apischema.json_schema.deserialization_schema(tp), default=repr))
    return lambda: json.loads(json.dumps(apischema.json_schema.serialization_schema(tp), default=repr))


def norm(res):
    kind, v = res
    if kind == "ok":
        return ["ok", json.loads(json.dumps(v, default=repr))]
    return ["exc", type(v).__name__]


def load_shape(shape):
    src = build.PRELUDE + SHAPES[shape]
    b = build.load({"future": True, "enums": [], "newtypes": [], "classes": []}, source=src)
    mod = b.module
    # values for serialization are built sequentially beforehand, then caches are reset: not part of the concurrent phase
    mod.VALUES = {k: apischema.deserialize(tp, json.loads(json.dumps(mod.DATA[k]))) for k, tp in mod.TYPES.items()}
    return b


def evaluate(case, ctx):
    if case.get("stress"):
        return evaluate_stress(case, ctx)
    ctx.count()
    shape = case["shape"]
    try:
        b = load_shape(shape)
    except Exception as e:
        raise HarnessError(f"shape {shape} does not build: {e!r}")
    sched = Scheduler(case.get("choices", []), trace_prefix=REPO_PREFIX if case.get("trace") else None)
    try:
        mod = b.module
        fns = [thread_fn(mod, t) for t in case["threads"]]
        with Instrument(sched) as ins:
            apischema.cache.reset()
            ins.caches.clear()
            try:
                concurrent = [norm(r) for r in sched.run(fns)]
            except Deadlock as e:
                ctx.violation({"kind": "deadlock", "shape": shape}, case, str(e))
                return
            warm = [norm(_call(f)) for f in fns]
            apischema.cache.reset()
            ins.caches.clear()
            cold = [norm(_call(f)) for f in fns]
        apischema.cache.reset()
        rc_threads = {me for me, tag, _ in sched.trace if tag.startswith("rc.")}
        rc_switch = sum(1 for me, tag, nxt in sched.trace if nxt != me and tag.startswith("rc.") and nxt in rc_threads)
        if concurrent != cold:
            bad = next(i for i in range(len(fns)) if concurrent[i] != cold[i])
            ctx.violation({"kind": "concurrent_differs", "shape": shape, "got": concurrent[bad][0] if concurrent[bad][0] == "ok" else concurrent[bad][1]},
                          case, f"thread {bad} {case['threads'][bad]}: concurrent {json.dumps(concurrent[bad])[:300]} vs cold sequential {json.dumps(cold[bad])[:300]}\n"
                                f"switches={sched.switches}, trace tail {sched.trace[-8:]}")
        elif warm != cold:
            bad = next(i for i in range(len(fns)) if warm[i] != cold[i])
            ctx.violation({"kind": "caches_poisoned", "shape": shape, "got": warm[bad][0] if warm[bad][0] == "ok" else warm[bad][1]}, case,
                          f"after the concurrent phase, thread op {case['threads'][bad]} gives {json.dumps(warm[bad])[:300]} sequentially, cold start gives {json.dumps(cold[bad])[:300]}")
        first, last = {}, {}
        for i_, (me, tag, nxt) in enumerate(sched.trace):
            first.setdefault(me, i_)
            last[me] = i_
        overlapping = sum(1 for i_, (me, tag, nxt) in enumerate(sched.trace)
                          if nxt != me and nxt in first and first[nxt] < i_ < last[nxt])
        if rc_switch >= 1 or (case.get("trace") and overlapping >= 1):
            eff = [(me, nxt) for me, tag, nxt in sched.trace if nxt != me][:40]
            ctx.nontriv([shape, case["threads"], eff])
            ctx.sample({"shape": shape, "threads": case["threads"], "context_switches": sched.switches, "switches_inside_recursion_analysis": rc_switch,
                        "schedule_head": [[me, tag, nxt] for me, tag, nxt in sched.trace[:12]]})
        ctx.h("shape:" + shape)
        ctx.h("line_level" if case.get("trace") else "injected_points")
        ctx.h("switches:%d" % min(sched.switches // 5 * 5, 50))
    finally:
        b.close()


def _call(f):
    try:
        return "ok", f()
    except BaseException as e:
        return "exc", e


# ---------------------------------------------------------------------------------------
# stress mode (thorough tier): real preemption
# ---------------------------------------------------------------------------------------

def evaluate_stress(case, ctx):
    shape, rounds, nthreads = case["shape"], case.get("rounds", 30), case.get("nthreads", 8)
    old = sys.getswitchinterval()
    sys.setswitchinterval(1e-6)
    try:
        for r in range(rounds):
            ctx.count()
            b = load_shape(shape)
            try:
                mod = b.module
                names = list(mod.TYPES)
                specs = [{"op": OPS[(i + r) % 4], "type": names[(i * 7 + r) % len(names)] if (r % 2) else names[r % len(names)]} for i in range(nthreads)]
                fns = [thread_fn(mod, t) for t in specs]
                apischema.cache.reset()
                barrier = threading.Barrier(nthreads)
                results = [None] * nthreads

                def body(i):
                    barrier.wait()
                    results[i] = _call(fns[i])

                ths = [threading.Thread(target=body, args=(i,)) for i in range(nthreads)]
                for t in ths:
                    t.start()
                for t in ths:
                    t.join()
                concurrent = [norm(x) for x in results]
                warm = [norm(_call(f)) for f in fns]
                apischema.cache.reset()
                cold = [norm(_call(f)) for f in fns]
                if concurrent != cold or warm != cold:
                    kind = "concurrent_differs" if concurrent != cold else "caches_poisoned"
                    ctx.violation({"kind": kind, "shape": shape, "stress": True}, {"stress": True, "shape": shape, "rounds": 200, "nthreads": nthreads},
                                  f"round {r}: {specs}\nconcurrent {json.dumps(concurrent)[:400]}\nwarm {json.dumps(warm)[:300]}\ncold {json.dumps(cold)[:300]}")
                    return
                ctx.nontriv(["stress", shape, r, ctx.shard])
            finally:
                b.close()
        ctx.h("stress_rounds:" + shape, rounds)
    finally:
        sys.setswitchinterval(old)
        apischema.cache.reset()


def extra(tier, ctx, shard, nshards):
    if tier != "thorough":
        return
    shapes = list(SHAPES)
    evaluate_stress({"stress": True, "shape": shapes[shard % len(shapes)], "rounds": 150, "nthreads": 8}, ctx)
