"""C15 — field-set tracking reflects the input and drives exclude_unset."""
from __future__ import annotations

from hypothesis import strategies as st

from apischema import deserialize, serialize
from apischema.dataclasses import replace
from apischema.fields import fields_set, set_fields, unset_fields

from vlib import build
from vlib.gen import chance, pick
from vlib.runner import HarnessError

ID = "C15"
TITLE = "Field-set tracking reflects the input and drives exclude_unset"
RULE = ("Model-based histories: Hypothesis draws a with_fields_set dataclass program (2-5 int fields: required, defaulted, "
        "default_as_set, init=False, InitVar, optional alias; decorated class / decorated base with a decorated or undecorated "
        "subclass) and a history of 2-10 operations: construction (keyword subset / positional prefix / deserialize from a key "
        "subset), attribute assignment, set_fields, unset_fields, set_fields(overwrite=True), apischema.dataclasses.replace (the object it was called on keeps its own set afterwards), each "
        "followed by the invariant.  Model = a Python set updated as documented.  Invariant after every step: fields_set(obj) "
        "restricted to declared fields == model; serialize(exclude_unset=True) emits exactly the aliases of the serializable set "
        "fields and serialize(exclude_unset=False) emits all of them (for an undecorated subclass only this second, self-consistency "
        "relation against fields_set(obj) is asserted).  Non-trivial: the history has an unset-producing step (construction omitting "
        "a defaulted field, unset_fields, overwrite) followed by a serialization.  Distinct = hash(program, history).")
ASSUMPTIONS = ["assignment to a tracked field inside __post_init__ and undecorated subclasses' own fields are not defined by the documentation (not asserted)"]
BUDGET = {"quick": 700, "thorough": 12000}
SHARDS = {"quick": 8, "thorough": 16}
MIN_NONTRIVIAL = {"quick": 1000, "thorough": 20000}
TECHNIQUE = "model-based testing of operation histories (Hypothesis): set model of the documented field-set semantics, invariant after every step"
LEVEL_TEXT = ("Exploration: ~5k (quick) / ~190k (thorough) generated (program, history) pairs, ~6 steps each; the invariant "
              "(fields_set vs model, serialize with/without exclude_unset) is evaluated after every step.")
LEVEL_NOTE = "Trusted: the set model below (de_serialization.md 'Exclude unset fields', 'Fields set', default_as_set)."

NAMES = ["a", "b_c", "d", "e_f", "g"]


@st.composite
def strategy_(draw, tier):
    n = draw(st.integers(2, 5))
    fields = []
    for i in range(n):
        kind = pick(draw, ["req", "def", "def", "def_as_set", "init_false", "initvar", "initvar_def"])
        fields.append({"n": NAMES[i], "kind": kind, "alias": f"al{i}" if chance(draw, 0.3) else None})
    if not any(f["kind"] in ("def", "req", "def_as_set") for f in fields):
        fields[0]["kind"] = "def"
    inherit = pick(draw, [None, None, None, "sub_decorated", "sub_undecorated"])
    split = draw(st.integers(1, n - 1)) if inherit else None
    prog = {"fields": fields, "inherit": inherit, "split": split}
    names = [f["n"] for f in fields]
    real = [f["n"] for f in fields if not f["kind"].startswith("initvar")]
    settable = [f["n"] for f in fields if not f["kind"].startswith("initvar")]
    hist = []
    first = pick(draw, ["kw", "kw", "pos", "deser", "deser"])
    optional = [f["n"] for f in fields if f["kind"] in ("def", "def_as_set", "initvar_def")]
    required = [f["n"] for f in fields if f["kind"] in ("req", "initvar")]
    chosen = sorted(set(required) | set(draw(st.lists(st.sampled_from(optional), unique=True)) if optional else []), key=names.index)
    if first == "pos":
        init_names = [f["n"] for f in fields if f["kind"] != "init_false"]
        # positional prefix covering all required parameters (defaults last is enforced by kw_only=False ordering below)
        k = draw(st.integers(0, len(init_names)))
        hist.append({"op": "positional", "n": k})
    elif first == "kw":
        hist.append({"op": "construct", "kw": chosen})
    else:
        hist.append({"op": "deserialize", "keys": [x for x in chosen]})
    for _ in range(draw(st.integers(1, 9))):
        op = pick(draw, ["setattr", "set", "unset", "unset", "overwrite", "replace", "serialize", "serialize"])
        if op == "setattr":
            hist.append({"op": "setattr", "f": pick(draw, settable)})
        elif op in ("set", "unset", "overwrite"):
            hist.append({"op": op, "fs": draw(st.lists(st.sampled_from(real), unique=True, max_size=3))})
        elif op == "replace":
            cands = [f["n"] for f in fields if f["kind"] != "init_false"]
            hist.append({"op": "replace", "fs": draw(st.lists(st.sampled_from(cands), unique=True, max_size=2))})
        else:
            hist.append({"op": "serialize"})
    return {"prog": prog, "history": hist}


def strategy(tier):
    return strategy_(tier)


def render(prog) -> str:
    fields, inherit, split = prog["fields"], prog["inherit"], prog["split"]

    def ordered(fs):
        # dataclass rule: parameters without default first
        return sorted(fs, key=lambda f: 0 if f["kind"] in ("req", "initvar") else 1)

    def fline(f):
        md = []
        if f["alias"]:
            md.append(f"alias({f['alias']!r})")
        if f["kind"] == "def_as_set":
            md.append("default_as_set")
        te = "InitVar[int]" if f["kind"].startswith("initvar") else "int"
        args = []
        if f["kind"] == "init_false":
            args += ["init=False", "default=7"]
        elif f["kind"] in ("def", "def_as_set", "initvar_def"):
            args.append("default=7")
        if md:
            args.append("metadata=" + " | ".join(md))
        return f"    {f['n']}: {te}" + (f" = field({', '.join(args)})" if args else "")

    lines = []
    if inherit:
        base, sub = fields[:split], fields[split:]
        # a subclass cannot add a required parameter after a defaulted one of its base: use kw_only
        lines += ["@with_fields_set", "@dataclass(kw_only=True)", "class Base:"] + [fline(f) for f in base]
        lines += ["    def __post_init__(self" + "".join(f", {f['n']}" for f in base if f["kind"].startswith("initvar")) + "):", "        pass", ""]
        if inherit == "sub_decorated":
            lines.append("@with_fields_set")
        lines += ["@dataclass(kw_only=True)", "class C(Base):"] + [fline(f) for f in sub]
        lines += ["    def __post_init__(self" + "".join(f", {f['n']}" for f in fields if f["kind"].startswith("initvar")) + "):", "        pass"]
    else:
        lines += ["@with_fields_set", "@dataclass", "class C:"] + [fline(f) for f in ordered(fields)]
        lines += ["    def __post_init__(self" + "".join(f", {f['n']}" for f in ordered(fields) if f["kind"].startswith("initvar")) + "):", "        pass"]
    lines += ["", "ROOT = C"]
    return "\n".join(lines) + "\n"


def describe(case):
    return render(case["prog"]) + "\nhistory: " + repr(case["history"])


def evaluate(case, ctx):
    prog, hist = case["prog"], case["history"]
    ctx.count()
    src = render(prog)
    try:
        b = build.load({"future": True, "enums": [], "newtypes": [], "classes": []}, source=build.PRELUDE + src)
    except Exception as e:
        raise HarnessError(f"fields_set program does not build: {e!r}\n{src}")
    try:
        _evaluate(case, ctx, b, src)
    finally:
        b.close()


def _evaluate(case, ctx, b, src):
    prog, hist = case["prog"], case["history"]
    fields, inherit = prog["fields"], prog["inherit"]
    C = b.module.C
    order = fields if inherit else sorted(fields, key=lambda f: 0 if f["kind"] in ("req", "initvar") else 1)
    declared = [f["n"] for f in fields if not f["kind"].startswith("initvar")]
    initvars = {f["n"] for f in fields if f["kind"].startswith("initvar")}
    always = {f["n"] for f in fields if f["kind"] in ("init_false", "def_as_set")}
    required = [f["n"] for f in fields if f["kind"] in ("req", "initvar")]
    alias = {f["n"]: (f["alias"] or f["n"]) for f in fields}
    undecorated = inherit == "sub_undecorated"
    obj, model = None, set()
    originals = []
    unset_step = False
    for i, step in enumerate(hist):
        op = step["op"]
        try:
            if op == "construct":
                obj = C(**{n: 1 for n in step["kw"]})
                model = (set(step["kw"]) - initvars) | always
                unset_step |= len(model) < len(declared)
            elif op == "positional":
                init_names = [f["n"] for f in order if f["kind"] != "init_false"]
                if inherit:
                    obj = C(**{n: 1 for n in set(init_names[: step["n"]]) | set(required)})
                    model = ((set(init_names[: step["n"]]) | set(required)) - initvars) | always
                else:
                    k = max(step["n"], sum(1 for f in order if f["kind"] in ("req", "initvar")))
                    obj = C(*[1] * k)
                    model = (set(init_names[:k]) - initvars) | always
                unset_step |= len(model) < len(declared)
            elif op == "deserialize":
                obj = deserialize(C, {alias[n]: 1 for n in step["keys"]})
                model = (set(step["keys"]) - initvars) | always
                unset_step |= len(model) < len(declared)
            elif op == "setattr":
                setattr(obj, step["f"], 2)
                model.add(step["f"])
            elif op == "set":
                set_fields(obj, *step["fs"])
                model |= set(step["fs"])
            elif op == "unset":
                unset_fields(obj, *step["fs"])
                model -= set(step["fs"])
                unset_step |= bool(step["fs"])
            elif op == "overwrite":
                set_fields(obj, *step["fs"], overwrite=True)
                model = set(step["fs"])
                unset_step = True
            elif op == "replace":
                # dataclasses.replace requires InitVars without default to be given again
                req_iv = [f["n"] for f in fields if f["kind"] == "initvar"]
                originals.append((obj, frozenset(model), i))  # the original keeps its own tracked set from now on
                obj = replace(obj, **{n: 3 for n in list(step["fs"]) + [x for x in req_iv if x not in step["fs"]]})
                model = model | (set(step["fs"]) - initvars)
        except Exception as e:
            ctx.violation({"kind": "crash", "op": op, "exc": type(e).__name__, "inherit": inherit or "none"}, {"prog": prog, "history": hist[: i + 1]},
                          f"{e!r} at step {i} {step}\n{src}")
            return
        # invariant
        try:
            fs = set(fields_set(obj))
            out_unset = serialize(C, obj)
            out_all = serialize(C, obj, exclude_unset=False)
        except Exception as e:
            ctx.violation({"kind": "crash", "op": "observe", "exc": type(e).__name__, "inherit": inherit or "none"}, {"prog": prog, "history": hist[: i + 1]},
                          f"{e!r} observing after step {i} {step}\n{src}")
            return
        got = fs & set(declared)
        trunc = {"prog": prog, "history": hist[: i + 1]}
        if not undecorated:
            for old, old_model, at in originals:
                old_got = set(fields_set(old)) & set(declared)
                if old_got != old_model:
                    ctx.violation({"kind": "replace_shares_fields_set", "op": op, "inherit": inherit or "none"}, trunc,
                                  f"after {hist[: i + 1]}: the object replace() was called on at step {at} now has fields_set {sorted(old_got)}, it had {sorted(old_model)}\n{src}")
                    return
        base_decl = {f["n"] for f in fields[: prog["split"]]} if inherit else set(declared)
        if not undecorated and got != model:
            ctx.violation({"kind": "fields_set_differs", "op": op, "inherit": inherit or "none",
                           "extra": sorted(_kinds(fields, got - model)), "missing": sorted(_kinds(fields, model - got))},
                          trunc, f"after {hist[: i + 1]}: fields_set = {sorted(fs)}, model = {sorted(model)}\n{src}")
            return
        exp_keys = {alias[n] for n in (got if undecorated else model) if n in declared}
        if set(out_unset) != exp_keys:
            ctx.violation({"kind": "exclude_unset_differs", "op": op, "inherit": inherit or "none"}, trunc,
                          f"after {hist[: i + 1]}: serialize(exclude_unset=True) keys {sorted(out_unset)}, set fields {sorted(exp_keys)}\n{src}")
            return
        if set(out_all) != {alias[n] for n in declared}:
            ctx.violation({"kind": "exclude_unset_false_differs", "op": op, "inherit": inherit or "none"}, trunc,
                          f"serialize(exclude_unset=False) keys {sorted(out_all)} != all fields\n{src}")
            return
    if unset_step:
        ctx.nontriv([prog, hist])
        ctx.sample({"program": src, "history": hist, "final_fields_set": sorted(model)})
    ctx.h("steps:%d" % len(hist))
    ctx.h("inherit:%s" % (inherit or "none"))


def _kinds(fields, names):
    return {f["kind"] for f in fields if f["n"] in names}
