"""C03 — deserialization is total, pure and crash-free on arbitrary input."""
from __future__ import annotations

import copy
import json
import os
import traceback

from hypothesis import strategies as st

import apischema
from apischema import ValidationError, deserialize

from vlib import build, gen, hostile
from vlib import model as M
from vlib import tdcase
from vlib.gen import chance, pick
from vlib.runner import HarnessError

ID = "C03"
TITLE = "Deserialization is total, pure and crash-free on arbitrary input"
RULE = ("Hypothesis draws a type program (including the types converted by std_types: UUID, date, datetime, time, Decimal, bytes, "
        "Path, IPv4Address, a user type with two catching deserializers, and integer / float multipleOf), an option set (additional_properties, fall_back_on_default, aliaser, no_copy, settings.deserialization.override_dataclass_constructors, "
        "coerce in {off, True, custom coercer returning wrong-typed values / raising}) and 4-10 Python data per type: valid "
        "data with 1-2 hostile atoms planted (nan, inf, -0.0, 10**400, bytes, tuple, set, str/int/float/dict/list subclasses, "
        "dicts with int/None/tuple/bytes/mixed keys, unhashable / hostile-__eq__ objects, ...), mutants, coercion-bait strings, "
        "fully random hostile trees, random JSON and deep nestings (depth 50..2500); 12 % of the cases take their program and data from C13's union "
        "generator (overlapping unions, discriminated unions with tagged data) with hostile atoms / bait planted; integers beyond the int <-> str "
        "conversion limit (10**5000) and Set[Any] are included.  Oracle: outcome is a return or ValidationError; "
        "errors computable, json.dumps-able, str() works; type-exact snapshot of the input unchanged; vars() of generated classes "
        "unchanged.  Non-trivial: the datum has the JSON class the root type expects (reaches below the root method) and contains "
        ">= 1 hostile atom, planted mutation or coercion-bait.  Distinct = hash(type shape, datum shape, option set).")
ASSUMPTIONS = [
    "exceptions raised by generated user callables (custom coercer) are of a marker class and exempt, as the statement says; so is any exception whose "
    "innermost frame is code of the generated module itself (a default factory, a converter, __post_init__)",
    "a compile-time TypeError raised by apischema itself with an explicit message would be a generator bug (none observed)",
]
BUDGET = {"quick": 900, "thorough": 16000}
SHARDS = {"quick": 8, "thorough": 16}
MIN_NONTRIVIAL = {"quick": 1500, "thorough": 40000}
TECHNIQUE = "property-based testing (Hypothesis): generated type programs x hostile Python data, crash/purity oracle, crashes bucketed by root cause"
LEVEL_TEXT = ("Exploration: ~45k (quick) / ~1.5M (thorough) generated (type, options, hostile datum) cases; any exception other than "
              "ValidationError, any mutation of the input or of user classes, or a non-computable / non-JSON errors list is a violation, "
              "bucketed by (exception type, innermost apischema frame).")
LEVEL_NOTE = ("Trusted: the snapshot function, the list of hostile atoms (vlib/hostile.py). Inputs are Python objects built from a finite "
              "atom pool; objects with side-effecting dunder methods beyond __eq__/__hash__ are not generated.")

BAIT = ["maybe", "1.5", "", " 1", "1e400", "nan", "inf", "-inf", "0x1", "TRUE", "Yes", "off", "2", "1_0", "٣", "١٢",
        # near-misses of the std_types images (base64 padding, dates, UUIDs, addresses, decimals)
        "abc", "YWJ", "Y", "2020-13-45", "2020-01-02T25:00:00", "99:99", "12345678", "1.2.3.4.5", "256.1.1.1", "1e", "a\x00b", "1.2.3", "a.b", "1."]

REPO_PREFIX = os.path.realpath(os.path.dirname(apischema.__file__))


class UserError(Exception):
    pass


def weird_coercer(cls, data):
    if cls is int:
        # wrong-typed result: must end as ValidationError
        if isinstance(data, int) and not isinstance(data, bool) and data.bit_length() > 2000:
            return "x"  # (str() of a huge int would raise in this coercer itself: a user exception, exempt)
        return str(data) if isinstance(data, (int, float, str, bool, type(None))) else "x"
    if cls is bool:
        raise UserError("coercer says no")
    if cls is float:
        return data
    return data


def unhashable_coercer(cls, data):
    if cls is str:
        return [data]
    if cls is type(None):
        return None if data in ("", None) else data
    return data


COERCERS = {"weird": weird_coercer, "unhashable": unhashable_coercer}


def _bait(draw, d):
    ps = [p for p in gen.paths(d) if not isinstance(gen.get_at(d, p), (list, dict))]
    if not ps:
        return pick(draw, BAIT)
    for _ in range(draw(st.integers(1, 2))):
        d = gen.set_at(d, pick(draw, ps), pick(draw, BAIT))
    return d


def _is_recursive(prog) -> bool:
    return len(prog.get("classes", [])) > 0


def data_fn(draw, prog, t, opts):
    r = draw(st.integers(0, 99))
    dyn = opts["aliaser"]
    if r < 30:
        d = gen.valid(draw, prog, t, dyn)
        return hostile.plant(draw, d, draw(st.integers(1, 2))), "planted"
    if r < 45:
        d = gen.valid(draw, prog, t, dyn)
        d, _, kinds = gen.mutants(draw, d, draw(st.integers(1, 3)))
        return d, "mutant"
    if r < 60:
        return draw(hostile.hostile_json), "hostile_random"
    if r < 70:
        return draw(gen.any_json), "random"
    if r < 78:
        return gen.valid(draw, prog, t, dyn), "valid"
    if r < 93:
        return _bait(draw, gen.valid(draw, prog, t, dyn)), "bait"
    form = pick(draw, ["list", "a", "zz", "x_a"])
    n = pick(draw, [50, 200, 900, 2500])
    return {"$py": "deep", "n": n, "form": form, "leaf": pick(draw, [None, 0, "a"])}, "deep"


@st.composite
def strategy_(draw, tier):
    cfg = {"max_depth": 3 if tier == "quick" else 4, "generics": True, "std": True, "std_multi": True, "float_mult_of": True, "leaf_validators": True, "class_validators": True, "any_in_sets": True}
    if chance(draw, 0.12):
        # unions from C13's generator (overlapping families, discriminated unions with tagged data), then made hostile
        from props import c13

        uc = draw(c13.strategy_(tier))
        case = {"prog": uc["prog"], "opts": uc["opts"], "data": []}
        for item in uc["data"]:
            d = item["d"]
            r = draw(st.integers(0, 9))
            if r < 3:
                d = hostile.plant(draw, d, 1)
            elif r < 5:
                d = _bait(draw, d)
            case["data"].append({"d": d, "tag": "union:" + str(item.get("tag"))})
    else:
        case = draw(tdcase.td_cases(cfg, n_data=(4, 10), data_fn=data_fn))
    case["opts"]["coerce"] = pick(draw, [False, False, True, True, "weird", "unhashable"])
    case["opts"]["no_copy"] = draw(st.booleans())
    case["opts"]["override_constructors"] = chance(draw, 0.3)  # settings.deserialization.override_dataclass_constructors
    return case


def strategy(tier):
    return strategy_(tier)


describe = tdcase.describe


def innermost_frame(exc) -> str:
    """file:qualified function of the innermost frame inside the apischema package."""
    last = None
    tb = exc.__traceback__
    while tb is not None:
        code = tb.tb_frame.f_code
        fn = os.path.realpath(code.co_filename)
        if fn.startswith(REPO_PREFIX):
            last = f"{os.path.relpath(fn, REPO_PREFIX)}:{getattr(code, 'co_qualname', code.co_name)}"
        tb = tb.tb_next
    return last or "<outside apischema>"


def class_snapshot(b):
    out = {}
    for cd in b.prog.get("classes", []):
        cls = getattr(b.module, cd["name"], None)
        if cls is not None:
            out[cd["name"]] = {k: id(v) for k, v in vars(cls).items()}
    return out


def evaluate(case, ctx):
    prog, opts = case["prog"], case["opts"]
    try:
        b = build.load(prog)
    except Exception as e:
        raise HarnessError(f"generated program does not build: {e!r}\n{build.render(prog)}")
    old_override = apischema.settings.deserialization.override_dataclass_constructors
    try:
        apischema.settings.deserialization.override_dataclass_constructors = bool(opts.get("override_constructors"))
        _evaluate(case, ctx, b, prog, opts)
    finally:
        apischema.settings.deserialization.override_dataclass_constructors = old_override
        b.close()


def _evaluate(case, ctx, b, prog, opts):
    kw = tdcase.api_kwargs(opts)
    co = opts.get("coerce")
    if co in COERCERS:
        kw["coerce"] = COERCERS[co]
    elif co:
        kw["coerce"] = True
    kw["no_copy"] = bool(opts.get("no_copy"))
    tp = b.root
    optkey = [opts.get("additional_properties"), opts.get("fall_back_on_default"), opts.get("aliaser"), co, opts.get("no_copy")]
    cls_before = None
    for item in case["data"]:
        enc, tag = item["d"], item.get("tag", "?")
        ctx.count()
        ctx.h("data:" + tag)
        try:
            d = hostile.decode(enc)
        except RecursionError:
            ctx.h("undecodable")
            continue
        if cls_before is None:
            cls_before = class_snapshot(b)
        deep_n = enc.get("n") if isinstance(enc, dict) and enc.get("$py") == "deep" else None
        snap = hostile.snapshot(d) if deep_n is None else None
        single = {"prog": prog, "opts": opts, "data": [item]}
        try:
            deserialize(tp, d, **kw)
            ctx.h("outcome:return")
        except ValidationError as err:
            ctx.h("outcome:ValidationError")
            try:
                errors = err.errors
                assert isinstance(errors, list)
                str(err)
            except Exception as e2:
                ctx.violation({"kind": "errors_not_computable", "exc": type(e2).__name__, "frame": innermost_frame(e2)},
                              single, "".join(traceback.format_exception_only(type(e2), e2)))
            else:
                try:
                    json.dumps(errors)
                except Exception as e3:
                    ctx.violation({"kind": "errors_not_json", "exc": type(e3).__name__}, single, f"{e3!r}: {errors!r}"[:500])
        except UserError:
            ctx.h("outcome:user_exception(exempt)")
        except BaseException as e:
            if isinstance(e, (KeyboardInterrupt, SystemExit, HarnessError)):
                raise
            tb_ = e.__traceback__
            while tb_ is not None and tb_.tb_next is not None:
                tb_ = tb_.tb_next
            if tb_ is not None and tb_.tb_frame.f_code.co_filename.startswith("<vgen"):
                # raised by the code of the generated module itself (a default factory, a converter, __post_init__): user code, exempt
                ctx.h("outcome:exception_in_user_code(exempt)")
                continue
            ctx.h("outcome:crash")
            sig = {"kind": "crash", "exc": type(e).__name__, "frame": innermost_frame(e)}
            if isinstance(e, TypeError) and str(e).startswith("unhashable type"):
                sig["unhashable"] = True
            if deep_n is not None and isinstance(e, RecursionError):
                sig = {"kind": "crash", "exc": "RecursionError", "deep": True, "depth": deep_n}
            ctx.violation(sig, single, "".join(traceback.format_exception_only(type(e), e))[:300]
                          + f" on datum {tdcase.compact(enc, 200)}")
        if snap is not None and hostile.snapshot(d) != snap:
            ctx.violation({"kind": "input_modified"}, single, f"input changed: {tdcase.compact(enc, 300)}")
        root_ok = _reaches(prog, prog["root"], d)
        if root_ok and (hostile.is_hostile(enc) or tag in ("mutant", "bait", "planted")):
            ctx.nontriv([tdcase.shape(prog["root"], prog), _eshape(enc), optkey])
            ctx.sample({"type": b.source.split("ROOT = ")[-1].strip(), "options": opts, "datum": enc})
    if cls_before is not None and class_snapshot(b) != cls_before:
        after = class_snapshot(b)
        diff = {n: sorted(set(after[n]) ^ set(cls_before[n])) or "values" for n in after if after[n] != cls_before[n]}
        ctx.violation({"kind": "class_modified", "attrs": sorted({a for v in diff.values() if isinstance(v, list) for a in v})},
                      {"prog": prog, "opts": opts, "data": case["data"][:1]}, f"vars() of user classes changed: {diff}")


def _reaches(prog, t, d) -> bool:
    t = M.strip(t, prog)
    k = t["k"]
    if k in ("list", "set", "frozenset", "vartuple", "tuple"):
        return isinstance(d, list)
    if k in ("map", "cls"):
        return isinstance(d, dict)
    return True


def _eshape(e, depth=3):
    if depth <= 0:
        return "."
    if isinstance(e, list):
        return [_eshape(x, depth - 1) for x in e[:4]]
    if isinstance(e, dict):
        if "$py" in e:
            return "$" + e["$py"]
        return {str(k)[:3]: _eshape(v, depth - 1) for k, v in list(e.items())[:4]}
    return tdcase.json_class(e)
