"""C08 — options that are optimizations never change results."""
from __future__ import annotations

import copy
import dataclasses
import itertools
import json

from hypothesis import strategies as st

import apischema
from apischema import (PassThroughOptions, ValidationError, deserialization_method, deserialize, serialization_default,
                       serialization_method, serialize)

from vlib import build, gen, hostile
from vlib import model as M
from vlib import tdcase
from vlib.gen import chance, pick
from vlib.runner import HarnessError
from props.c04 import vshape

ID = "C08"
TITLE = "Options that are optimizations never change results"
RULE = ("Hypothesis draws a type program (incl. std converted types and serialized methods), the remaining options (aliaser, additional_properties, fall_back_on_default; "
        "exclude_none / exclude_defaults for serialization), 3-6 data (valid, mutants, atoms) and 2-4 typed values.  "
        "Deserialization variants: no_copy x settings.deserialization.override_dataclass_constructors x {deserialize, "
        "deserialization_method} x pass_through in {(), (a generated class + the converted standard classes the program uses)}: all must return canon-equal values or "
        "ValidationErrors with equal .errors; with no_copy=False the result shares no mutable container (by id) with the input, "
        "with any variant the input snapshot is unchanged.  Serialization variants: no_copy x check_type x {serialize, "
        "serialization_method} x 8 sampled PassThroughOptions (any, collections, dataclasses, enums, tuple, types): after "
        "completion json.loads(json.dumps(out, default=serialization_default(same options))) must equal the baseline image; with no_copy=False and the "
        "default PassThroughOptions the output shares no list / dict / set (by id) with the value, through objects too; fall_back_on_any is one of the "
        "remaining options (30 % of the cases).  "
        "Non-trivial: the type mixes a copying node (float, set, tuple, object, enum) with a check-only node (str/int/bool list or "
        "mapping) and the datum/value has >= 1 container level.  Distinct = hash(type shape, datum/value shape, verdict).")
ASSUMPTIONS = ["pure differential: no model; the baseline is the call with the library defaults",
               "values are well-typed (check_type=True must not change the result for them)"]
BUDGET = {"quick": 500, "thorough": 6000}
FUZZ = {"quick": 0, "thorough": 2000}
SHARDS = {"quick": 8, "thorough": 16}
MIN_NONTRIVIAL = {"quick": 500, "thorough": 8000}
TECHNIQUE = "property-based testing (Hypothesis): differential between optimisation-option variants of apischema itself + container-identity walk"
LEVEL_TEXT = ("Exploration: ~15k (quick) / ~300k (thorough) (type, datum/value) cases, each evaluated under 16 deserialization and ~64 "
              "serialization option variants that must agree (after completion by serialization_default); aliasing and input purity checked by id/snapshot.")
LEVEL_NOTE = "Trusted: canon(), snapshot(); settings.deserialization.override_dataclass_constructors restored in a finally block."

PT_VARIANTS = [
    {}, {"any": True}, {"collections": True}, {"dataclasses": True}, {"enums": True}, {"tuple": True},
    {"any": True, "collections": True, "dataclasses": True, "enums": True, "tuple": True},
    {"collections": True, "enums": True}, {"dataclasses": True, "tuple": True, "any": True},
]


@st.composite
def strategy_(draw, tier):
    cfg = {"max_depth": 3 if tier == "quick" else 4, "generics": True, "methods": True, "std": True, "lit_in_union": False, "unsup": False}
    prog = draw(gen.programs(cfg))
    opts = {"aliaser": pick(draw, ["id", "id", "camel", "pfx"]), "additional_properties": chance(draw, 0.25),
            "fall_back_on_default": chance(draw, 0.15), "exclude_none": chance(draw, 0.25), "exclude_defaults": chance(draw, 0.25),
            "fall_back_on_any": chance(draw, 0.3)}
    data = []
    for _ in range(draw(st.integers(3, 6))):
        d, tag = gen.data_for(draw, prog, prog["root"], opts["aliaser"], (45, 30, 10, 15))
        data.append({"d": d, "tag": tag})
    values = [gen.perturb_value(draw, prog, prog["root"], gen.value_for(draw, prog, prog["root"])) for _ in range(draw(st.integers(2, 4)))]
    pts = draw(st.lists(st.sampled_from(range(len(PT_VARIANTS))), min_size=3, max_size=3, unique=True))
    return {"prog": prog, "opts": opts, "data": data, "values": values, "pt": pts}


def strategy(tier):
    return strategy_(tier)


describe = tdcase.describe


def evaluate(case, ctx):
    prog, opts = case["prog"], case["opts"]
    try:
        b = build.load(prog)
    except Exception as e:
        raise HarnessError(f"generated program does not build: {e!r}\n{build.render(prog)}")
    old = apischema.settings.deserialization.override_dataclass_constructors
    try:
        _deser(case, ctx, b, prog, opts)
        _ser(case, ctx, b, prog, opts)
    finally:
        apischema.settings.deserialization.override_dataclass_constructors = old
        b.close()


def outcome(fn):
    try:
        return "ok", fn()
    except ValidationError as e:
        return "err", e.errors
    except Exception as e:
        return "crash", e


def mixes(classes) -> bool:
    copying = {"FloatMethod", "ConstrainedFloatMethod", "SetMethod", "FrozenSetMethod", "TupleMethod", "VariadicTupleMethod",
               "ObjectMethod", "LiteralMethod", "ListMethod", "MappingMethod", "ConversionMethod", "SubprimitiveMethod"}
    checkonly = {"StrMethod", "IntMethod", "BoolMethod", "NoneMethod", "ListCheckOnlyMethod", "MappingCheckOnly", "SimpleObjectMethod"}
    return bool(set(classes) & copying) and bool(set(classes) & checkonly)


def _deser(case, ctx, b, prog, opts):
    base_kw = {"aliaser": build.ALIASERS[opts["aliaser"]], "additional_properties": bool(opts.get("additional_properties")),
               "fall_back_on_default": bool(opts.get("fall_back_on_default"))}
    tp, root = b.root, prog["root"]
    first_cls = getattr(b.module, prog["classes"][0]["name"]) if prog["classes"] and prog["classes"][0]["flavor"] != "typeddict" else None
    try:
        classes = tdcase.tree_classes(deserialization_method(tp, no_copy=True, **base_kw).__self__)
    except Exception:
        classes = []
    nt = mixes(classes)
    import datetime, decimal, ipaddress, pathlib, uuid
    std_map = {"uuid": uuid.UUID, "date": datetime.date, "datetime": datetime.datetime, "time": datetime.time, "decimal": decimal.Decimal,
               "bytes": bytes, "path": pathlib.PurePath, "ipv4": ipaddress.IPv4Address}
    src_json = json.dumps(prog)
    std_classes = [c for k_, c in std_map.items() if f'"t": "{k_}"' in src_json]
    for item in case["data"]:
        d = item["d"]
        ctx.count()
        single = {"prog": prog, "opts": opts, "data": [item], "values": [], "pt": case["pt"]}
        ref = None
        for no_copy, override, use_method, pt in itertools.product((True, False), (False, True), (False, True), (False, True)):
            if pt and first_cls is None and not std_classes:
                continue
            apischema.settings.deserialization.override_dataclass_constructors = override
            kw = dict(base_kw, no_copy=no_copy)
            if pt:  # pass-through of a generated class and of the converted standard classes used by the program
                kw["pass_through"] = tuple(([first_cls] if first_cls is not None else []) + std_classes)
            inp = copy.deepcopy(d)
            snap = hostile.snapshot(inp)
            if use_method:
                got = outcome(lambda: deserialization_method(tp, **kw)(inp))
            else:
                got = outcome(lambda: deserialize(tp, inp, **kw))
            variant = {"no_copy": no_copy, "override_dataclass_constructors": override, "method": use_method, "pass_through": pt}
            if got[0] == "crash":
                ctx.h("crash_routed_to_C03")
                ref = None
                break
            if hostile.snapshot(inp) != snap:
                ctx.violation({"side": "deserialization", "kind": "input_modified", **{k: v for k, v in variant.items() if v}}, single,
                              f"input modified under {variant}")
            if got[0] == "ok" and not no_copy:
                shared = hostile.container_ids(inp) & result_container_ids(got[1])
                if shared:
                    kinds = sorted({type_at(prog, root, inp, p, opts["aliaser"], M.Opts(**opts), result=got[1]) for p in paths_of(inp, shared)})
                    ctx.violation({"side": "deserialization", "kind": "shares_container_with_input", "at": kinds}, single,
                                  f"no_copy=False but result {got[1]!r} shares {len(shared)} mutable container(s) with the input {tdcase.compact(d, 200)} "
                                  f"at positions typed {kinds}")
            # messages at one location have no specified order (C02 only fixes own-before-children): multiset
            cur = (got[0], M.canon(got[1]) if got[0] == "ok" else sorted(got[1], key=lambda e: json.dumps(e, sort_keys=True, default=repr)))
            if ref is None:
                ref = (cur, variant)
            elif cur != ref[0]:
                diff = sorted(k for k in variant if variant[k] != ref[1][k])
                ctx.violation({"side": "deserialization", "kind": "variant_differs", "options": diff, "root": tdcase.node_sig(prog, root)}, single,
                              f"{ref[1]} -> {tdcase.compact(ref[0], 300)}\n{variant} -> {tdcase.compact(cur, 300)}")
                break
        if ref is not None and nt and isinstance(d, (list, dict)) and len(d) > 0:
            ctx.nontriv(["de", tdcase.shape(root, prog), tdcase.dshape(d), ref[0][0]])
            ctx.sample({"side": "deserialization", "type": b.source.split("ROOT = ")[-1].strip(), "datum": d, "outcome": ref[0][0]})


def paths_of(d, ids, prefix=()):
    out = []
    if isinstance(d, (list, dict)) and id(d) in ids:
        out.append(prefix)
    if isinstance(d, list):
        for i, x in enumerate(d):
            out += paths_of(x, ids, prefix + (i,))
    elif isinstance(d, dict):
        for k, x in d.items():
            out += paths_of(x, ids, prefix + (k,))
    return out


def _container_alts(prog, t, cur, mopts=None):
    out = []
    for a in M.union_alts(t):
        k = M.strip(a, prog)["k"]
        if k == "any":
            out.append(a)
        elif isinstance(cur, list) and k in ("list", "set", "frozenset", "vartuple", "tuple"):
            out.append(a)
        elif isinstance(cur, dict) and k in ("map", "cls"):
            out.append(a)
    if len(out) > 1:  # tell the alternative from the datum with the reference model
        m = M.Model(prog, mopts or M.Opts(aliaser="id"))
        for a in out:  # in order: the first accepting alternative is the one served
            try:
                if m.deserialize(a, cur)[0] == "ok":
                    return [a]
            except M.Unspecified:
                return out
    return out


def _find_field(prog, cd, key, dyn):
    for f in M.des_fields(cd):
        if f.get("agg") is None and M.ext_name(f, cd, dyn) == key:
            return f["t"]
    for f in M.des_fields(cd):
        if f.get("agg") == "flatten":
            sub = _find_field(prog, prog["classes"][M.strip(f["t"], prog)["i"]], key, dyn)
            if sub is not None:
                return sub
    return None


def type_at(prog, t, d, path, dyn, mopts=None, result=None) -> str:
    """Kind of the declared type at `path` of datum d: 'any', 'additional_property', a kind name, or
    'unknown' when the path crosses a union whose alternative cannot be told from the datum's class."""
    cur = d
    path = list(path) + [None]
    for p in path:
        t = M.strip(t, prog)
        k = t["k"]
        if k in ("opt", "union"):
            alts = _container_alts(prog, t, cur, mopts)
            if len(alts) != 1 and cur is d and result is not None:
                # root union: the class of the result tells which object alternative was served
                named = [a for a in alts if M.strip(a, prog)["k"] == "cls" and prog["classes"][M.strip(a, prog)["i"]]["name"] == type(result).__name__
                         and prog["classes"][M.strip(a, prog)["i"]]["flavor"] != "typeddict"]
                if named and len({M.strip(a, prog)["i"] for a in named}) == 1:  # (the union may repeat the class)
                    alts = named[:1]
            if alts and all(M.strip(a, prog)["k"] == "any" for a in alts):
                return "any"
            if len(alts) != 1:
                return "unknown"
            t = M.strip(alts[0], prog)
            k = t["k"]
        if k == "any":
            return "any"
        if p is None:
            return k
        if k in ("list", "set", "frozenset", "vartuple"):
            t = t["of"]
        elif k == "tuple":
            if not isinstance(p, int) or p >= len(t["items"]):
                return "unknown"
            t = t["items"][p]
        elif k == "map":
            t = t["val"]
        elif k == "cls":
            cd = prog["classes"][t["i"]]
            if t.get("args"):
                cd = M.specialize(cd, t["args"])
            nxt = _find_field(prog, cd, p, dyn)
            if nxt is None:
                aggs = [f for f in M.des_fields(cd) if f.get("agg")]
                import re as _re
                hit = [f for f in aggs if isinstance(f["agg"], dict) and isinstance(p, str) and _re.match(f["agg"]["pattern"], p)] or \
                      [f for f in aggs if f["agg"] == "additional"]
                if not hit:
                    return "additional_property"
                nxt = M.strip(hit[0]["t"], prog)["val"]
            t = nxt
        else:
            return "unknown"
        cur = cur[p]
    return "unknown"


def complete(x, default):
    """What a JSON library supporting the passed-through types does: apply `default` to anything
    which is not JSON, keys included (stdlib json.dumps does not call default for keys)."""
    if x is None or x.__class__ in (bool, int, float, str):
        return x
    if isinstance(x, (list, tuple)) and not hasattr(x, "_fields"):
        return [complete(y, default) for y in x]
    if x.__class__ is dict:
        return {(k if k.__class__ is str else complete(default(k), default)): complete(v, default) for k, v in x.items()}
    if isinstance(x, (bool, int, float, str)) and x.__class__.__module__ != "builtins":
        # subclasses (mixin enums...) are what json.dumps would write as their base value
        for base in (bool, int, float, str):
            if isinstance(x, base):
                return base(x)
    return complete(default(x), default)


def result_container_ids(v, acc=None, depth=0):
    import dataclasses
    acc = set() if acc is None else acc
    if depth > 50:
        return acc
    if isinstance(v, (list, dict, set)):
        acc.add(id(v))
        for y in (v.values() if isinstance(v, dict) else v):
            result_container_ids(y, acc, depth + 1)
    elif isinstance(v, (tuple, frozenset)):
        for y in v:
            result_container_ids(y, acc, depth + 1)
    elif dataclasses.is_dataclass(v) and not isinstance(v, type):
        for f in dataclasses.fields(v):
            result_container_ids(getattr(v, f.name, None), acc, depth + 1)
    return acc


def _ser(case, ctx, b, prog, opts):
    base_kw = {"aliaser": build.ALIASERS[opts["aliaser"]], "additional_properties": bool(opts.get("additional_properties")),
               "exclude_none": bool(opts.get("exclude_none")), "exclude_defaults": bool(opts.get("exclude_defaults"))}
    tp, root = b.root, prog["root"]
    default = serialization_default(**base_kw)
    fb_any = bool(opts.get("fall_back_on_any"))  # one of the "remaining options": changes nothing for well-typed values
    if fb_any:
        base_kw["fall_back_on_any"] = True
    first_cls = getattr(b.module, prog["classes"][0]["name"]) if prog["classes"] and prog["classes"][0]["flavor"] != "typeddict" else None
    for vc in case["values"]:
        ctx.count()
        single = {"prog": prog, "opts": opts, "data": [], "values": [vc], "pt": case["pt"]}
        try:
            real = b.value(vc)
        except Exception as e:
            raise HarnessError(f"cannot build value {vc!r}: {e!r}\n{b.source}")
        if not M.canon_eq(M.canon(real), vc) or not M.conforms(prog, root, vc):
            ctx.h("value_skipped")
            continue
        try:
            M.Model(prog).serialize(root, vc, M.SerOpts(**opts))
        except (M.Unspecified, M.Mismatch):
            ctx.h("unspecified")  # e.g. a str value served by an earlier Sequence[...] union alternative
            continue
        base = outcome(lambda: serialize(tp, real, **base_kw))
        if base[0] != "ok":
            ctx.h("baseline_crash_routed_to_C04")
            continue
        try:
            base_img = json.loads(json.dumps(complete(base[1], default)))
        except Exception:
            ctx.h("baseline_not_json_routed_to_C04")
            continue
        snap = hostile.snapshot(real) if isinstance(real, (list, dict, tuple)) else None
        bad = False
        # "check_type=True for well-typed values": well-typed for the alternative each union actually serves
        strict = M.conforms_first_match(prog, root, vc)
        if not strict:
            ctx.h("check_type_skipped:value_fits_a_later_union_alternative_only")
        for pti in [0] + list(case["pt"]):
            ptkw = dict(PT_VARIANTS[pti])
            for with_types in ((False, True) if first_cls is not None and pti != 0 else (False,)):
                if with_types:
                    ptkw = dict(ptkw, types=(first_cls,))
                pto = PassThroughOptions(**ptkw)
                for no_copy, check_type, use_method in itertools.product((True, False), (False, True), (False, True)):
                    if check_type and not strict:
                        continue
                    kw = dict(base_kw, no_copy=no_copy, check_type=check_type, pass_through=pto)
                    if use_method:
                        got = outcome(lambda: serialization_method(tp, **kw)(real))
                    else:
                        got = outcome(lambda: serialize(tp, real, **kw))
                    variant = {"pass_through": {k: (v if k != "types" else "first_class") for k, v in ptkw.items()}, "no_copy": no_copy, "check_type": check_type, "method": use_method}
                    if got[0] != "ok":
                        ctx.violation({"side": "serialization", "kind": "variant_fails", "exc": type(got[1]).__name__ if got[0] == "crash" else "ValidationError",
                                       "pass_through": sorted(ptkw), "check_type": check_type}, single, f"{variant}: {got[1]!r}"[:700])
                        bad = True
                        break
                    try:
                        img = json.loads(json.dumps(complete(got[1], default)))
                    except Exception as e:
                        ctx.violation({"side": "serialization", "kind": "not_completable", "pass_through": sorted(ptkw)}, single,
                                      f"{variant}: json.dumps(default=serialization_default) failed: {e!r} on {got[1]!r}"[:700])
                        bad = True
                        break
                    if not no_copy and pti == 0 and not with_types:
                        shared = value_container_ids(real) & hostile.container_ids(got[1])
                        if shared:
                            ctx.violation({"side": "serialization", "kind": "shares_container_with_input", "fall_back_on_any": fb_any}, single,
                                          f"{variant}: no_copy=False but the result {got[1]!r} shares {len(shared)} mutable container(s) with the value {real!r}"[:700])
                            bad = True
                            break
                    if not _img_eq(base_img, img):
                        ctx.violation({"side": "serialization", "kind": "variant_differs", "pass_through": sorted(ptkw), "no_copy": no_copy, "check_type": check_type},
                                      single, f"baseline {tdcase.compact(base_img, 300)}\n{variant} -> {tdcase.compact(img, 300)}")
                        bad = True
                        break
                if bad:
                    break
            if bad:
                break
        if snap is not None and hostile.snapshot(real) != snap:
            ctx.violation({"side": "serialization", "kind": "value_modified"}, single, "serialization modified its input value")
        if isinstance(base_img, (list, dict)) and len(base_img) > 0:
            ctx.nontriv(["ser", tdcase.shape(root, prog), vshape(vc), case["pt"]])
            ctx.sample({"side": "serialization", "type": b.source.split("ROOT = ")[-1].strip(), "value": repr(real)[:200], "image": base_img,
                        "pass_through_variants": [PT_VARIANTS[i] for i in case["pt"]]})


def value_container_ids(x, acc=None, depth=0) -> set:
    """ids of the mutable containers (list / dict / set) reachable from a typed value, through objects too."""
    acc = set() if acc is None else acc
    if depth > 100:
        return acc
    if isinstance(x, (list, dict, set)):
        acc.add(id(x))
    if isinstance(x, dict):
        for k, y in x.items():
            value_container_ids(k, acc, depth + 1)
            value_container_ids(y, acc, depth + 1)
    elif isinstance(x, (list, set, frozenset, tuple)) or type(x).__name__ == "deque":
        for y in x:
            value_container_ids(y, acc, depth + 1)
    elif dataclasses.is_dataclass(x) and not isinstance(x, type):
        for y in vars(x).values():
            value_container_ids(y, acc, depth + 1)
    return acc


def _img_eq(a, b) -> bool:
    """Equality of completed JSON images; arrays coming from sets have no order: compared as multisets
    when the ordered comparison fails."""
    if a == b and type(a) is type(b):
        return True
    if isinstance(a, list) and isinstance(b, list) and len(a) == len(b):
        if all(_img_eq(x, y) for x, y in zip(a, b)):
            return True
        rest = list(b)
        for x in a:
            for i, y in enumerate(rest):
                if _img_eq(x, y):
                    del rest[i]
                    break
            else:
                return False
        return True
    if isinstance(a, dict) and isinstance(b, dict) and a.keys() == b.keys():
        return all(_img_eq(a[k], b[k]) for k in a)
    if isinstance(a, bool) or isinstance(b, bool):
        return a is b
    if isinstance(a, (int, float)) and isinstance(b, (int, float)):
        return a == b and isinstance(a, float) == isinstance(b, float)
    return False
