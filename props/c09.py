"""C09 — cached methods never go stale across configuration histories."""
from __future__ import annotations

import itertools
import json
import os
import struct
import sys
import traceback

from hypothesis import strategies as st

import apischema

from vlib import build
from vlib import model as M
from vlib.runner import HarnessError

ID = "C09"
TITLE = "Cached methods never go stale across configuration histories"
RULE = ("Histories over an alphabet of ~60 configuration operations, each a real public API call on a pool of freshly defined types: "
        "assignments to settings (additional_properties, aliaser, camel_case, json_schema_version, default_type_name), "
        "settings.deserialization.* and settings.serialization.* (coerce, coercer, fall_back_on_default, no_copy, "
        "override_dataclass_constructors, pass_through, check_type, fall_back_on_any, exclude_*), settings.errors.* (templates and "
        "callables), settings.base_schema.*; deserializer / serializer registration and reset_deserializers / reset_serializer; "
        "set_object_fields(cls, fields | None); type_name; schema(...)(tp); class alias(aliaser); class order; validator(owner=); "
        "dependent_required(owner=); serialized(owner=); discriminator; apischema.cache.set_size (it changes no result by itself, but every "
        "later operation has to invalidate the resized caches too: each operation is also run right after one set_size).  After EVERY operation ~40 observations (deserialize valid / "
        "invalid data, serialize, both schemas, on objects, NewType, converted wrapper, Union[A, B] and Union[B, A], enum) are taken warm "
        "and compared (a) with the same observations taken after apischema.cache.reset() in a fork()ed copy of the warm process (so that "
        "the comparison never repairs the history under test) and, at the end of the history, (b) with a replay of the configuration "
        "operations in a forked pristine interpreter (zygote forked before any history ran).  Explored: bounded-exhaustive "
        "observe->op->observe for every operation (quick) and every ordered pair of operations (thorough), plus Hypothesis histories of "
        "2-8 (quick) / 2-25 (thorough) operations.  Non-trivial: the history contains an operation followed by an observation whose "
        "cold value differs from its value before the operation (the operation is observable).  Distinct = the operation sequence.")
ASSUMPTIONS = ["methods explicitly obtained before a change may keep the former behaviour (statement's last sentence): not compared",
               "cold start = fork of a process that only imported apischema and the harness, never a new OS process (5 ms instead of 150 ms)"]
BUDGET = {"quick": 25, "thorough": 600}
FUZZ = {"quick": 0, "thorough": 0}  # a case forks cold-start interpreters: too slow per execution for a coverage-guided campaign
SHARDS = {"quick": 8, "thorough": 16}
MIN_NONTRIVIAL = {"quick": 60, "thorough": 2000}
TECHNIQUE = "model-based history testing: bounded-exhaustive op pairs + Hypothesis op sequences; oracle = warm vs cache.reset() in a fork vs forked pristine interpreter replay"
LEVEL_TEXT = ("Exploration with an exhaustively enumerated core (every single operation in quick, every ordered pair in thorough) plus random histories; "
              "after every operation ~40 observations are compared warm / reset-in-fork / pristine-replay.")
LEVEL_NOTE = "Trusted: the pool program and op table below; os.fork-based cold starts; settings snapshot/restore between histories."

POOL = r'''
import apischema
from apischema import settings, deserialize, serialize, ValidationError
from apischema.json_schema import deserialization_schema, serialization_schema, JsonSchemaVersion
from apischema.conversions import reset_deserializers, reset_serializer
from apischema.objects import ObjectField, set_object_fields
from apischema.serialization import PassThroughOptions
from apischema.type_names import TypeName
import uuid

class E(Enum):
    X = "x"
    Y = "y"

N = NewType("N", int)

class W:
    def __init__(self, v):
        self.v = v
    def __repr__(self):
        return f"W({self.v!r})"
    def __eq__(self, other):
        return isinstance(other, W) and other.v == self.v
    def __hash__(self):
        return hash(self.v)

def w_from_int(v: int) -> W:
    return W(v)
def w_from_str(v: str) -> W:
    return W(len(v))
def w_to_int(w: W) -> int:
    return w.v
def w_to_str(w: W) -> str:
    return "w" + str(w.v)

@dataclass
class A:
    some_field: int = 0
    other: Optional[str] = None
    n: N = N(1)

@dataclass
class B:
    some_field: int = 0

@dataclass
class H:
    w: W
    e: E = E.X

@dataclass
class Base:
    kind_field: int = 0
@dataclass
class Sub1(Base):
    x: int = 0
@dataclass
class Sub2(Base):
    y: int = 0

@dataclass
class HD:  # the discriminated union below a class: the compiled method is cached with the one of HD
    u: Annotated[Union[Sub1, Sub2], discriminator("type")]

@dataclass
class Leaf:
    x: int = 0
@dataclass
class Tree:
    leaves: List[Leaf] = field(default_factory=list)
# registering these makes Tree (not recursive until then) a recursive type
def leaf_to_tree(leaf: Leaf) -> Tree:
    return Tree([])
def leaf_from_tree(tree: Tree) -> Leaf:
    return Leaf(len(tree.leaves))

def coercer_str_len(cls, data):
    if cls is int and isinstance(data, str):
        return len(data)
    return data

def a_validator(self: A):
    if self.some_field == 13:
        raise ValidationError("thirteen")
def a_field_validator(self: A):
    if self.some_field == 14:
        raise ValidationError("fourteen")
def a_serialized(self: A) -> int:
    return self.some_field + 100

def default_fields_b(cls):
    if cls is B:
        return [ObjectField("renamed", int, required=False, default=7)]
    return None

def type_name_upper(tp):
    return TypeName(tp.__name__.upper(), tp.__name__.upper()) if isinstance(tp, type) and tp.__module__ == __name__ else None

OPS = {
    "ap_true": lambda: setattr(settings, "additional_properties", True),
    "ap_false": lambda: setattr(settings, "additional_properties", False),
    "aliaser_upper": lambda: setattr(settings, "aliaser", upper),
    "aliaser_id": lambda: setattr(settings, "aliaser", ident),
    "camel_true": lambda: setattr(settings, "camel_case", True),
    "camel_false": lambda: setattr(settings, "camel_case", False),
    "version_draft7": lambda: setattr(settings, "json_schema_version", JsonSchemaVersion.DRAFT_7),
    "version_oas30": lambda: setattr(settings, "json_schema_version", JsonSchemaVersion.OPEN_API_3_0),
    "version_2020": lambda: setattr(settings, "json_schema_version", JsonSchemaVersion.DRAFT_2020_12),
    "default_type_name_upper": lambda: setattr(settings, "default_type_name", type_name_upper),
    "default_object_fields_b": lambda: setattr(settings, "default_object_fields", default_fields_b),
    "de_coerce_true": lambda: setattr(settings.deserialization, "coerce", True),
    "de_coerce_false": lambda: setattr(settings.deserialization, "coerce", False),
    "de_coercer_len": lambda: setattr(settings.deserialization, "coercer", coercer_str_len),
    "de_fall_back_true": lambda: setattr(settings.deserialization, "fall_back_on_default", True),
    "de_fall_back_false": lambda: setattr(settings.deserialization, "fall_back_on_default", False),
    "de_no_copy_false": lambda: setattr(settings.deserialization, "no_copy", False),
    "de_override_ctor": lambda: setattr(settings.deserialization, "override_dataclass_constructors", True),
    "de_pass_through_w": lambda: setattr(settings.deserialization, "pass_through", (W,)),
    "ser_check_type": lambda: setattr(settings.serialization, "check_type", True),
    "ser_fall_back_any": lambda: setattr(settings.serialization, "fall_back_on_any", True),
    "ser_exclude_defaults": lambda: setattr(settings.serialization, "exclude_defaults", True),
    "ser_exclude_defaults_off": lambda: setattr(settings.serialization, "exclude_defaults", False),
    "ser_exclude_none": lambda: setattr(settings.serialization, "exclude_none", True),
    "ser_exclude_none_off": lambda: setattr(settings.serialization, "exclude_none", False),
    "ser_no_copy_false": lambda: setattr(settings.serialization, "no_copy", False),
    "ser_pass_through_enums": lambda: setattr(settings.serialization, "pass_through", PassThroughOptions(enums=True)),
    "err_minimum": lambda: setattr(settings.errors, "minimum", "TOO SMALL {}"),
    "err_minimum_callable": lambda: setattr(settings.errors, "minimum", lambda c, d: f"{d} < {c}"),
    "err_minimum_default": lambda: setattr(settings.errors, "minimum", "less than {} (minimum)"),
    "err_one_of": lambda: setattr(settings.errors, "one_of", "NOT IN {}"),
    "err_missing": lambda: setattr(settings.errors, "missing_property", "MISSING"),
    "err_unexpected": lambda: setattr(settings.errors, "unexpected_property", "UNEXPECTED"),
    "base_schema_type": lambda: setattr(settings.base_schema, "type", lambda tp: schema(title="T") if tp is A else None),
    "base_schema_field": lambda: setattr(settings.base_schema, "field", lambda tp, name, alias_: schema(description="F:" + name) if tp is A else None),
    "deserializer_int": lambda: deserializer(w_from_int),
    "deserializer_str": lambda: deserializer(w_from_str),
    "serializer_int": lambda: serializer(w_to_int),
    "serializer_str": lambda: serializer(w_to_str),
    "reset_deserializers_w": lambda: reset_deserializers(W),
    "reset_serializer_w": lambda: reset_serializer(W),
    "set_object_fields_a": lambda: set_object_fields(A, [ObjectField("some_field", int, required=True), ObjectField("extra", str, required=False, default="d")]),
    "set_object_fields_a_none": lambda: set_object_fields(A, None),
    "type_name_a": lambda: type_name("RenamedA")(A),
    "type_name_a_none": lambda: type_name(None)(A),
    "type_name_n": lambda: type_name("RenamedN")(N),
    "schema_n_min": lambda: schema(min=0)(N),
    "schema_n_max": lambda: schema(max=3, description="n")(N),
    "schema_a_title": lambda: schema(title="A title")(A),
    "class_aliaser_a": lambda: alias(upper)(A),
    "class_aliaser_a_pfx": lambda: alias(pfx)(A),
    "order_a": lambda: order(["n", "other", "some_field"])(A),
    "order_a_map": lambda: order({"other": order(-1)})(A),
    "validator_a": lambda: validator(owner=A)(a_validator),
    "field_validator_a": lambda: validator("some_field", owner=A)(a_field_validator),
    "dependent_required_a": lambda: dependent_required({"other": ["n"]}, owner=A),
    "serialized_a": lambda: serialized(owner=A)(a_serialized),
    "serialized_a_alias": lambda: serialized("aliased_method", owner=A)(a_serialized),
    "discriminator_base": lambda: discriminator("kind")(Base),
    "type_name_sub1": lambda: type_name("S1")(Sub1),
    "type_name_sub1_none": lambda: type_name(None)(Sub1),
    "serializer_leaf_as_tree": lambda: serializer(leaf_to_tree),
    "deserializer_leaf_from_tree": lambda: deserializer(leaf_from_tree),
    "reset_serializer_leaf": lambda: reset_serializer(Leaf),
    "reset_deserializers_leaf": lambda: reset_deserializers(Leaf),
    "cache_set_size_64": lambda: apischema.cache.set_size(64),
    "cache_set_size_2": lambda: apischema.cache.set_size(2),
}

def _obs(fn):
    try:
        r = fn()
    except ValidationError as e:
        return {"ValidationError": e.errors}
    except Exception as e:
        return {"error": type(e).__name__ + ": " + re.sub(r"vgen_\d+", "vgen", str(e))[:120]}
    return {"ok": CANON(r)}

OBS = {
    "de_a_valid": lambda: deserialize(A, {"some_field": 1}),
    "de_a_camel": lambda: deserialize(A, {"someField": 2}),
    "de_a_upper": lambda: deserialize(A, {"SOME_FIELD": 2, "N": 2}),
    "de_a_invalid": lambda: deserialize(A, {"some_field": "1", "zz": 1, "n": -5}),
    "de_a_13": lambda: deserialize(A, {"some_field": 13, "other": None}),
    "de_a_14": lambda: deserialize(A, {"some_field": 14}),
    "de_a_14_upper": lambda: deserialize(A, {"SOME_FIELD": 14}),
    "de_a_14_camel": lambda: deserialize(A, {"someField": 14}),
    "de_a_other_only": lambda: deserialize(A, {"other": "o"}),
    "ser_a": lambda: serialize(A, A(1, None, N(1))),
    "ser_a_default": lambda: serialize(A, A()),
    "ser_a_typeless": lambda: serialize(A(3, "x", N(2))),
    "schema_de_a": lambda: deserialization_schema(A),
    "schema_ser_a": lambda: serialization_schema(A),
    "de_n": lambda: deserialize(N, -5),
    "schema_n": lambda: deserialization_schema(N),
    "de_h_int": lambda: deserialize(H, {"w": 3}),
    "de_h_str": lambda: deserialize(H, {"w": "abc", "e": "z"}),
    "ser_h": lambda: serialize(H, H(W(3))),
    "schema_de_h": lambda: deserialization_schema(H),
    "de_union_ab": lambda: deserialize(Union[A, B], {"some_field": 1}),
    "de_union_ba": lambda: deserialize(Union[B, A], {"some_field": 1}),
    "de_b_renamed": lambda: deserialize(B, {"renamed": 1}),
    "de_list_a": lambda: deserialize(List[A], [{"some_field": 1}, {"some_field": "x"}]),
    "de_base": lambda: deserialize(Base, {"kind": "Sub1", "x": 1}),
    "schema_list_a": lambda: deserialization_schema(List[A], all_refs=True),
    "de_disc_union": lambda: deserialize(Annotated[Union[Sub1, Sub2], discriminator("type")], {"type": "Sub1", "x": 1}),
    "de_disc_union_s1": lambda: deserialize(Annotated[Union[Sub1, Sub2], discriminator("type")], {"type": "S1", "x": 1}),
    "ser_disc_union": lambda: serialize(Annotated[Union[Sub1, Sub2], discriminator("type")], Sub1(0, 1)),
    "de_hd": lambda: deserialize(HD, {"u": {"type": "Sub1", "x": 1}}),
    "de_hd_upper": lambda: deserialize(HD, {"u": {"type": "SUB2", "y": 1}}),
    "ser_hd": lambda: serialize(HD, HD(Sub2(0, 1))),
    "ser_tree": lambda: serialize(Tree, Tree([Leaf(1), Leaf(2)])),
    "de_tree": lambda: deserialize(Tree, {"leaves": [{"leaves": []}, {"leaves": [{"leaves": []}]}]}),
    "de_tree_flat": lambda: deserialize(Tree, {"leaves": [{"x": 1}]}),
    "schema_ser_tree": lambda: serialization_schema(Tree),
    "schema_de_tree": lambda: deserialization_schema(Tree),
}

def observe_all(reset_each=False):
    out = {}
    for k, f in OBS.items():
        if reset_each:  # every observation from its own cold start
            apischema.cache.reset()
        out[k] = _obs(f)
    return out
'''

OP_NAMES = None


def op_names():
    global OP_NAMES
    if OP_NAMES is None:
        import re
        OP_NAMES = re.findall(r'^    "([a-z0-9_]+)": lambda', POOL.split("OPS = {")[1].split("\n}\n")[0], flags=re.M)
    return OP_NAMES


# ---------------------------------------------------------------------------------------
# cold starts
# ---------------------------------------------------------------------------------------

def in_fork(fn):
    """Run fn() in a fork()ed copy of this process and return its JSON result."""
    r, w = os.pipe()
    pid = os.fork()
    if pid == 0:
        code = 0
        try:
            os.close(r)
            try:
                payload = json.dumps(fn(), default=repr)
            except BaseException:
                payload = json.dumps({"__harness_error__": traceback.format_exc()})
            with os.fdopen(w, "w") as f:
                f.write(payload)
        except BaseException:
            code = 1
        finally:
            os._exit(code)
    os.close(w)
    with os.fdopen(r) as f:
        data = f.read()
    os.waitpid(pid, 0)
    res = json.loads(data)
    if isinstance(res, dict) and "__harness_error__" in res:
        raise HarnessError(res["__harness_error__"])
    return res


class Zygote:
    """A process forked before any history ran; for each request it forks a grandchild that replays
    the configuration operations from scratch and returns the observations."""

    def __init__(self):
        self.req_r, self.req_w = os.pipe()
        self.resp_r, self.resp_w = os.pipe()
        self.pid = os.fork()
        if self.pid == 0:
            os.close(self.req_w)
            os.close(self.resp_r)
            self._serve()
            os._exit(0)
        os.close(self.req_r)
        os.close(self.resp_w)

    def _serve(self):
        inp = os.fdopen(self.req_r, "rb")
        while True:
            head = inp.read(4)
            if len(head) < 4:
                return
            (n,) = struct.unpack("<I", head)
            ops = json.loads(inp.read(n).decode())
            pid = os.fork()
            if pid == 0:
                try:
                    out = json.dumps(replay(ops), default=repr).encode()
                except BaseException:
                    out = json.dumps({"__harness_error__": traceback.format_exc()}).encode()
                os.write(self.resp_w, struct.pack("<I", len(out)) + out)
                os._exit(0)
            os.waitpid(pid, 0)

    def ask(self, ops):
        data = json.dumps(ops).encode()
        os.write(self.req_w, struct.pack("<I", len(data)) + data)
        head = b""
        while len(head) < 4:
            head += os.read(self.resp_r, 4 - len(head))
        (n,) = struct.unpack("<I", head)
        buf = b""
        while len(buf) < n:
            buf += os.read(self.resp_r, n - len(buf))
        res = json.loads(buf.decode())
        if isinstance(res, dict) and "__harness_error__" in res:
            raise HarnessError(res["__harness_error__"])
        return res


_ZYGOTE = None
_ZYGOTE_PID = None


def zygote() -> Zygote:
    global _ZYGOTE, _ZYGOTE_PID
    if _ZYGOTE is None or _ZYGOTE_PID != os.getpid():
        _ZYGOTE = Zygote()
        _ZYGOTE_PID = os.getpid()
    return _ZYGOTE


def load_pool():
    b = build.load({"future": True, "enums": [], "newtypes": [], "classes": []}, source=build.PRELUDE + POOL, reset=False)
    b.module.CANON = M.canon
    return b


def replay(ops):
    b = load_pool()
    for op in ops:
        try:
            b.module.OPS[op]()
        except Exception:
            pass
    return b.module.observe_all(reset_each=True)


# ---------------------------------------------------------------------------------------
# settings isolation
# ---------------------------------------------------------------------------------------

def snapshot_settings():
    s = apischema.settings
    out = []
    for holder in (s, s.deserialization, s.serialization, s.errors, s.base_schema):
        for k, v in vars(holder).items():
            if not k.startswith("__") and not isinstance(v, type) and not isinstance(v, (classmethod, staticmethod, property)):
                out.append((holder, k, v))
    return out


_ORIG_CACHED = None


def undo_set_size():
    """apischema.cache.set_size rebinds the cached factories in their modules: put the original ones back after a case."""
    global _ORIG_CACHED
    import apischema.cache as c

    if _ORIG_CACHED is None:
        _ORIG_CACHED = list(c._cached)
        return
    for cached in _ORIG_CACHED:
        w = cached.__wrapped__
        if getattr(sys.modules[w.__module__], w.__name__) is not cached:
            setattr(sys.modules[w.__module__], w.__name__, cached)
    c._cached[:] = _ORIG_CACHED


def restore_settings(snap):
    for holder, k, v in snap:
        try:
            if getattr(holder, k) is not v:
                setattr(holder, k, v)
        except Exception:
            type.__setattr__(holder, k, v)
    apischema.cache.reset()


# ---------------------------------------------------------------------------------------
# cases
# ---------------------------------------------------------------------------------------

def enumerate_cases(tier):
    names = op_names()
    for a in names:
        yield {"ops": [a]}
    if tier == "thorough":
        for a, b_ in itertools.product(names, repeat=2):
            yield {"ops": [a, b_]}
    else:
        # quick tier: every ordered pair of operations that configure the same pool type (an observation made after the
        # first can be made stale by the second), and a deterministic slice of the other pairs
        done = set()
        for g in ("A", "W", "N", "Leaf", "Sub"):
            grp = [x for x in names if op_group(x) == g]
            for a, b_ in itertools.permutations(grp, 2):
                done.add((a, b_))
                yield {"ops": [a, b_]}
        for i, (a, b_) in enumerate(itertools.product(names, repeat=2)):
            if i % 37 == 0 and (a, b_) not in done:
                yield {"ops": [a, b_]}
        # the cache size is changed once, then each registration / setting: the resized caches have to be invalidated as well
        for a in names:
            if not a.startswith("cache_set_size"):
                yield {"ops": ["cache_set_size_64", a]}


def op_group(name: str) -> str:
    if "leaf" in name:
        return "Leaf"
    if name.endswith("_w") or name in ("deserializer_int", "deserializer_str", "serializer_int", "serializer_str"):
        return "W"
    if "sub1" in name or name == "discriminator_base":
        return "Sub"
    if name.endswith("_n") or "_n_" in name:
        return "N"
    if name.endswith("_a") or "_a_" in name:
        return "A"
    return "G"


def strategy(tier):
    n = 8 if tier == "quick" else 25
    return st.builds(lambda ops: {"ops": ops}, st.lists(st.sampled_from(op_names()), min_size=2, max_size=n))


def describe(case):
    return "operations applied in order on the pool of props/c09.py: " + ", ".join(case["ops"])


def evaluate(case, ctx):
    zyg = zygote()  # before anything is configured in this process
    undo_set_size()  # (first call: remembers the original cached factories)
    ops = case["ops"]
    ctx.count()
    snap = snapshot_settings()
    apischema.cache.reset()
    b = load_pool()
    observable = False
    try:
        mod = b.module
        before = mod.observe_all()
        applied = []
        conflated = False
        for i, op in enumerate(ops):
            try:
                mod.OPS[op]()
            except Exception as e:
                ctx.h("op_raised:" + op)
            applied.append(op)
            warm = json.loads(json.dumps(mod.observe_all(), default=repr))
            cold = in_fork(lambda: mod.observe_all(reset_each=True))
            if cold != json.loads(json.dumps(before, default=repr)):
                observable = True
            diff = [k for k in warm if warm[k] != cold.get(k)]
            union_diff = [k for k in diff if k in ("de_union_ab", "de_union_ba")]
            diff = [k for k in diff if k not in union_diff]
            if union_diff and not conflated:
                conflated = True
                k = union_diff[0]
                ctx.violation({"kind": "union_order_conflated", "obs": union_diff}, {"ops": applied},
                              f"after {applied}: {k!r} warm = {json.dumps(warm[k])[:200]}; from a cold start = {json.dumps(cold[k])[:200]} "
                              f"(Union[A, B] == Union[B, A]: the method cached for one order serves the other)")
            if diff:
                k = diff[0]
                ctx.violation({"kind": "stale_until_reset", "op": op, "obs": sorted(diff)[:6]}, {"ops": applied},
                              f"after {applied}: observation {k!r} warm = {json.dumps(warm[k])[:300]}\nafter cache.reset() (fork) = {json.dumps(cold[k])[:300]}")
                return
            before = warm
        pristine = zyg.ask(ops)
        diff = [k for k in warm if warm[k] != pristine.get(k) and k not in ("de_union_ab", "de_union_ba")]
        if diff:
            k = diff[0]
            ctx.violation({"kind": "differs_from_pristine_replay", "ops": ops[-2:], "obs": sorted(diff)[:6]}, {"ops": ops},
                          f"after {ops}: observation {k!r} warm = {json.dumps(warm[k])[:300]}\npristine replay = {json.dumps(pristine[k])[:300]}")
            return
        if observable:
            ctx.nontriv(ops)
            ctx.sample({"operations": ops, "final_observation_sample": {k: warm[k] for k in list(warm)[:3]}})
        for op in ops:
            ctx.h("op:" + op)
    finally:
        b.close()
        if any(op.startswith("cache_set_size") for op in ops):
            undo_set_size()
        restore_settings(snap)
