"""C19 — GraphQL schema mirrors the data model and executes like (de)serialize."""
from __future__ import annotations

import copy
import json
import re

import graphql
from typing import Any
from hypothesis import strategies as st

import apischema
from apischema import ValidationError, deserialize, serialize
from apischema.graphql import graphql_schema

from vlib import build, gen
from vlib import model as M
from vlib import tdcase
from vlib.gen import chance, pick
from vlib.runner import HarnessError

ID = "C19"
TITLE = "GraphQL schema mirrors the data model and executes like (de)serialize"
RULE = ("Hypothesis draws an operation set over the GraphQL-compatible sub-grammar: dataclasses (nested, with aliases, class aliasers, "
        "defaults, Optional / Undefined / None defaults, skip, flattened fields, enum-typed defaults), lists / sets, Optional, Enum "
        "(plain / int / str), Literal of strings, NewType scalars, constrained primitives; 1-3 query resolvers returning a generated "
        "value of a generated type, one of them taking 1-2 arguments of generated (input) types with or without defaults; on 35% of the output classes (also "
        "classes flattened into others) a method resolver with an integer parameter (required or defaulted, given or omitted in the query) "
        "whose result is part of the expected image; an aliaser in "
        "{camelCase default, identity} and argument data (valid, mutants, atoms).  Oracle: graphql.validate_schema == [], print_schema and "
        "the introspection query succeed; every generated dataclass reachable from an output / argument position has an object / input "
        "type whose field names are aliaser(class_aliaser(alias or name)) and whose nullability is the model's (non-null unless Optional, "
        "Undefined, None / unserializable default); executing the select-everything query returns the model's GraphQL image of the "
        "resolver result (fields under the GraphQL aliaser, no conditional omission, Enum members as enum_aliaser(name), string literals "
        "as enum_aliaser(value), Undefined as null); for each argument datum passed as a variable, execution succeeds iff "
        "deserialize(param_type, datum, aliaser) succeeds, the resolver then receives the equal value, and on failure the resolver's call "
        "counter stays 0.  An enumerated family of 24 cases covers @interface hierarchies (interface reached directly, through a plain "
        "intermediate class, interface extending an interface, two levels) x resolver returning a list / one / Optional of the root interface: "
        "each type implements exactly its Python ancestors marked @interface, owns its own and inherited fields, the schema validates and the "
        "fragments query returns serialize(type(o), o) + __typename.  Non-trivial: the query has depth >= 2 and the operation has >= 1 argument.  Distinct = hash(program shape, datum shape).")
ASSUMPTIONS = ["graphql-core 3.2 is the reference engine (validate_schema, print_schema, introspection, graphql_sync)",
               "argument data rejected by graphql-core's own variable coercion before apischema sees them count as rejected by both sides"]
BUDGET = {"quick": 350, "thorough": 6000}
SHARDS = {"quick": 8, "thorough": 16}
MIN_NONTRIVIAL = {"quick": 150, "thorough": 3000}
TECHNIQUE = "property-based testing (Hypothesis): generated GraphQL operation programs validated and executed by graphql-core, compared with a model image and with deserialize"
LEVEL_TEXT = ("Exploration: ~2.8k (quick) / ~96k (thorough) generated operation programs (x ~6 argument data); schema validity, type map vs model, "
              "execution result vs model image, argument acceptance vs deserialize.")
LEVEL_NOTE = "Trusted: graphql-core 3.2.4; the ~60-line GraphQL image function below; deserialize on the parameter types (C01)."

GQL_CFG = dict(max_depth=3, kinds=["leaf", "opt", "list", "set", "cls"], leaf_kinds=["str", "int", "float", "bool", "enum", "newtype", "annprim"], enum_bases=["plain", "plain", "int"],
               alias_pool=["al{}", "Al_{}", "a_l{}", "someAlias{}"], flavors=["dataclass"], str_literals=True, recursion=False, typeddict=False,
               namedtuple=False, initvar=False, dep_req=False, skip=False, agg_maps=False, init_false=False, min_fields=1, required_md=False, conforming_defaults=True, unsup=False, any=False, fall_back=False, lit_in_union=False, explicit_unique=False)


@st.composite
def strategy_(draw, tier):
    dyn = pick(draw, ["camel", "camel", "id"])
    g = gen.TypeGen(draw, GQL_CFG)
    # pattern / additional aggregates are JSON scalars in GraphQL: keep flatten only
    n_ops = draw(st.integers(1, 3))
    ops = []
    for i in range(n_ops):
        ret = g.type(draw(st.integers(0, 2))) if (i > 0 and chance(draw, 0.5)) else {"k": "cls", "i": g.new_class(draw(st.integers(1, 2)))}
        ops.append({"name": f"op_{i}x", "ret": ret, "args": []})
    n_args = draw(st.integers(1, 2))
    for j in range(n_args):
        at = g.type(draw(st.integers(0, 2)))
        arg = {"n": f"arg_{j}", "t": at, "default": None}
        ops[0]["args"].append(arg)
    prog = g.prog
    _strip_aggregates(prog)
    prog["root"] = {"k": "tuple", "sp": "Tuple", "items": [o["ret"] for o in ops] + [a["t"] for a in ops[0]["args"]]}
    for o in ops:
        o["value"] = gen.value_for(draw, prog, o["ret"])
    for a in ops[0]["args"]:
        if chance(draw, 0.4):
            dv = gen.value_for(draw, prog, a["t"])
            if M.conforms(prog, a["t"], dv):  # a default violating its own constraints is not a value of the type
                a["default"] = {"c": dv}
    data = []
    for _ in range(draw(st.integers(3, 7))):
        row = {}
        for a in ops[0]["args"]:
            r = draw(st.integers(0, 99))
            if r < 15 and a["default"] is not None:
                continue
            if r < 55:
                row[a["n"]] = gen.valid(draw, prog, a["t"], dyn)
            elif r < 65:
                # an explicit null somewhere inside a conforming datum (GraphQL makes every defaulted / Undefined position
                # nullable: whether null is acceptable there is decided by deserialize)
                dv_ = gen.valid(draw, prog, a["t"], dyn)
                ps_ = [p_ for p_ in gen.paths(dv_) if p_]
                row[a["n"]] = gen.set_at(dv_, pick(draw, ps_), None) if ps_ else dv_
            elif r < 85:
                row[a["n"]] = gen.mutants(draw, gen.valid(draw, prog, a["t"], dyn), 1)[0]
            else:
                row[a["n"]] = pick(draw, gen.ATOMS)
        data.append(row)
    # explicit nulls, one position at a time, in an otherwise conforming argument (up to 4 rows)
    for a in ops[0]["args"][:1]:
        dv_ = gen.valid(draw, prog, a["t"], dyn)
        ps_ = [p_ for p_ in gen.paths(dv_) if p_ and not isinstance(gen.get_at(dv_, p_), (list, dict))]
        if ps_:
            start = draw(st.integers(0, len(ps_) - 1))
            for p_ in (ps_[start:] + ps_[:start])[:4]:
                row = {b_["n"]: gen.valid(draw, prog, b_["t"], dyn) for b_ in ops[0]["args"] if b_ is not a}
                row[a["n"]] = gen.set_at(dv_, p_, None)
                data.append(row)
    case = {"prog": prog, "ops": ops, "aliaser": dyn, "data": data}
    eh = pick(draw, [None, None, "none", "custom"])
    if eh:
        case["error_handler"] = eh
    # method resolvers with one integer parameter on classes reachable from the results (also on classes that are
    # flattened into others): {"cls", "name", "default": int | None, "given": int | None (None = argument omitted)}
    out_cls = sorted({i for o in ops for k_, i in tdcase.reachable_named(prog, o["ret"], "serialization") if k_ == "cls"})
    mres = []
    for i in out_cls:
        if chance(draw, 0.35):
            default = pick(draw, [None, 3, 0])
            given = draw(st.integers(-2, 9)) if (default is None or chance(draw, 0.7)) else None
            mres.append({"cls": i, "name": f"res_{i}x", "default": default, "given": given})
    if mres:
        case["mres"] = mres
    return case


def _strip_aggregates(prog):
    for cd in prog["classes"]:
        if cd is None:
            continue
        for f in cd["fields"]:
            if f.get("agg") not in (None, "flatten"):
                f["agg"] = None


def strategy(tier):
    return strategy_(tier)


def describe(case):
    return tdcase.describe({"prog": case["prog"]}) + "\noperations: " + json.dumps(case["ops"])[:1500]


# ---------------------------------------------------------------------------------------
# model of the GraphQL image
# ---------------------------------------------------------------------------------------

def gql_name(p, f, cd, dyn) -> str:
    return M.ext_name(f, cd, dyn)


_MRES = {}  # class index -> method resolvers of the case being evaluated


def mres_value(r):
    p = r["given"] if r["given"] is not None else r["default"]
    return p * 2 + 1


def gql_image(prog, t, v, dyn):
    k, tag = t["k"], v[0]
    if tag == "undef" or tag == "none":
        return None
    if k == "ann":
        return gql_image(prog, t["of"], v, dyn)
    if k == "newtype":
        return gql_image(prog, prog["newtypes"][t["i"]]["of"], v, dyn)
    if k in ("opt", "union"):
        for a in M.union_alts(t):
            if a["k"] not in ("none", "undefined", "unsup") and M.class_matches(prog, a, v):
                return gql_image(prog, a, v, dyn)
        raise M.Unspecified("no alternative")
    if k in ("str", "int", "float", "bool"):
        return v[1]
    if k in ("list", "set", "frozenset", "vartuple"):
        items = [gql_image(prog, t["of"], x, dyn) for x in v[1]]
        return M.Unordered(items) if tag in ("set", "frozenset") else items
    if k == "enum":
        return v[2].upper()
    if k == "lit":
        return str(v[1]).upper()
    if k == "cls":
        cd = prog["classes"][t["i"]]
        out = {}
        for f in M.ser_fields(cd):
            val = v[2][f["n"]]
            ft = M.remove_none(f["t"]) if f.get("none_as_undefined") else f["t"]
            if f.get("agg") == "flatten":
                sub = gql_image(prog, ft, val, dyn)
                out.update(sub or {})
            else:
                out[M.ext_name(f, cd, dyn)] = gql_image(prog, ft, val, dyn)
        for r in _MRES.get(t["i"], []):
            out[build.ALIASERS[dyn](r["name"])] = mres_value(r)
        return out
    raise M.Unspecified(k)


_MARGS = {}  # GraphQL field name of a method resolver -> "(p: 5)" or ""


def selection(tp, depth=0) -> str:
    tp = graphql.get_named_type(tp)
    if isinstance(tp, (graphql.GraphQLObjectType, graphql.GraphQLInterfaceType)):
        if depth > 8:
            return " { __typename }"
        return " { " + " ".join(name + _MARGS.get(name, "") + selection(f.type, depth + 1) for name, f in tp.fields.items()) + " }"
    return ""


def nullable(f, cd) -> bool:
    """Output nullability of a field: Optional / Undefined in its type."""
    t = f["t"]
    while t["k"] == "ann":  # constraints declared around an Optional
        t = t["of"]
    alts = M.union_alts(t) if t["k"] in ("opt", "union") else [t]
    return any(a["k"] in ("none", "undefined") for a in alts)


# ---------------------------------------------------------------------------------------

# ---------------------------------------------------------------------------------------
# interfaces: a small enumerated family (classes marked @interface, reached directly or through intermediate classes)
# ---------------------------------------------------------------------------------------
# hierarchy = list of (name, base or None, is_interface, own field name); concrete classes are the ones returned by the resolver
IFACE_HIERARCHIES = {
    "direct": [("Animal", None, True, "name"), ("Dog", "Animal", False, "good"), ("Cat", "Animal", False, "lives")],
    "through_plain": [("Animal", None, True, "name"), ("Pet", "Animal", False, "owner"), ("Dog", "Pet", False, "good"), ("Cat", "Animal", False, "lives")],
    "iface_extends_iface": [("Identified", None, True, "ident"), ("Named", "Identified", True, "name"), ("User", "Named", False, "mail"), ("Bot", "Identified", False, "model")],
    "two_levels": [("Animal", None, True, "name"), ("Pet", "Animal", True, "owner"), ("Mid", "Pet", False, "mid"), ("Dog", "Mid", False, "good"), ("Cat", "Pet", False, "lives")],
}


def iface_source(case) -> str:
    lines = ["from apischema.graphql import interface", ""]
    h = IFACE_HIERARCHIES[case["hierarchy"]]
    for name, base, is_if, fld in h:
        if is_if:
            lines.append("@interface")
        lines += ["@dataclass", f"class {name}({base}):" if base else f"class {name}:", f"    {fld}: int = {len(name)}", ""]
    root = h[0][0]
    concrete = [n for n, _, is_if, _ in h if not is_if and not any(b == n for _, b, _, _ in h)]
    ret = {"list": f"List[{root}]", "single": root, "opt": f"Optional[{root}]"}[case["ret"]]
    val = "[" + ", ".join(f"{c}()" for c in concrete) + "]" if case["ret"] == "list" else f"{concrete[0]}()"
    lines += [f"def things() -> {ret}:", f"    return {val}", ""]
    return "\n".join(lines) + "\n"


def iface_cases():
    for hname in IFACE_HIERARCHIES:
        for ret in ("list", "single", "opt"):
            for aliaser in ("id", "camel"):
                yield {"iface_family": True, "hierarchy": hname, "ret": ret, "aliaser": aliaser}


def enumerate_cases(tier):
    yield from iface_cases()


def evaluate_iface(case, ctx):
    ctx.count()
    src = build.PRELUDE + iface_source(case)
    try:
        b = build.load({"future": False, "enums": [], "newtypes": [], "classes": []}, source=src)
    except Exception as e:
        raise HarnessError(f"interface program does not build: {e!r}\n{src}")
    sig0 = {"family": "interfaces", "hierarchy": case["hierarchy"], "ret": case["ret"]}
    h = IFACE_HIERARCHIES[case["hierarchy"]]
    mod = b.module
    al = build.ALIASERS[case["aliaser"]]
    try:
        try:
            # (only the leaf classes are registered: an intermediate concrete class would be a second object type matching the
            # instances of its subclasses, and which of the two names such an instance is not fixed by the property)
            leaves = [n for n, _, is_if, _ in h if not is_if and not any(bse == n for _, bse, _, _ in h)]
            schema = graphql_schema(query=[mod.things], aliaser=al, types=[getattr(mod, n) for n in leaves])
        except Exception as e:
            ctx.violation({"kind": "schema_crash", "exc": type(e).__name__, **sig0}, case, f"{e!r}\n{iface_source(case)}")
            return
        errs = graphql.validate_schema(schema)
        if errs:
            ctx.violation({"kind": "schema_invalid", **sig0}, case, f"{[e.message for e in errs][:3]}\n{iface_source(case)}\n{graphql.print_schema(schema)}")
            return
        parent = {n: bse for n, bse, _, _ in h}
        is_if = {n: i for n, _, i, _ in h}

        def ancestors(n):
            out = []
            while parent[n]:
                n = parent[n]
                out.append(n)
            return out

        for n, _, i_, _ in h:
            gt = schema.type_map.get(n)
            want = sorted(a for a in ancestors(n) if is_if[a])
            if gt is None and not i_ and n not in leaves:
                continue
            if gt is None:
                ctx.violation({"kind": "type_missing", "type_is_interface": i_, **sig0}, case, f"{n} not in the schema\n{graphql.print_schema(schema)}")
                return
            if i_ != isinstance(gt, graphql.GraphQLInterfaceType):
                ctx.violation({"kind": "interface_kind_differs", **sig0}, case, f"{n}: {type(gt).__name__}\n{graphql.print_schema(schema)}")
                return
            got = sorted(x.name for x in gt.interfaces)
            if got != want:
                ctx.violation({"kind": "implements_differs", "type_is_interface": i_, **sig0}, case,
                              f"{n} implements {got}, its Python ancestors marked @interface are {want}\n{iface_source(case)}\n{graphql.print_schema(schema)}")
                return
            # fields: own + inherited, under the aliaser
            fields_want = sorted(al(f) for m, _, _, f in h if m == n or m in ancestors(n))
            if sorted(gt.fields) != fields_want:
                ctx.violation({"kind": "fields_differ", **sig0}, case, f"{n} has fields {sorted(gt.fields)}, expected {fields_want}")
                return
        concrete = [n for n, _, i_, _ in h if not i_ and not any(bse == n for _, bse, _, _ in h)]
        frags = " ".join("... on %s { %s }" % (c, " ".join(al(f) for m, _, _, f in h if m == c or m in ancestors(c))) for c in concrete)
        res = graphql.graphql_sync(schema, "{ things { __typename %s } }" % frags)
        if res.errors:
            ctx.violation({"kind": "execution_errors", **sig0}, case, f"{[e.message for e in res.errors][:3]}\n{iface_source(case)}\n{graphql.print_schema(schema)}")
            return
        objs = mod.things()
        objs = objs if isinstance(objs, list) else [objs]
        want = [dict(serialize(type(o), o, aliaser=al), __typename=type(o).__name__) for o in objs]
        got = res.data["things"]
        got = got if isinstance(got, list) else [got]
        if got != want:
            ctx.violation({"kind": "execution_differs", **sig0}, case, f"{got!r} != {want!r}")
            return
        ctx.nontriv(["iface_family", case])
        ctx.sample({"program": iface_source(case), "printed_schema": graphql.print_schema(schema)[:600]})
        ctx.h("iface_family")
    finally:
        b.close()


def evaluate(case, ctx):
    if case.get("iface_family"):
        return evaluate_iface(case, ctx)
    prog = case["prog"]
    ctx.count()
    src = build.render(prog)
    extra = ["", "CALLS = []"]
    for o in case["ops"]:
        params = []
        for a in o["args"]:
            te = build.texpr(a["t"], prog)
            if a["default"] is not None:
                params.append(f"{a['n']}: {te} = {build.vexpr(a['default']['c'], prog)}")
            else:
                params.append(f"{a['n']}: {te}")
        # parameters with defaults last
        params.sort(key=lambda s_: " = " in s_)
        extra += [f"def {o['name']}({', '.join(params)}) -> {build.texpr(o['ret'], prog)}:",
                  f"    CALLS.append(({o['name']!r}, dict({', '.join(a['n'] + '=' + a['n'] for a in o['args'])})))",
                  f"    return {build.vexpr(o['value'], prog)}", ""]
    _MRES.clear()
    _MARGS.clear()
    al_ = build.ALIASERS[case["aliaser"]]
    for r in case.get("mres", []):
        cname = prog["classes"][r["cls"]]["name"]
        dflt = "" if r["default"] is None else f" = {r['default']}"
        extra += [f"def {r['name']}(self: {cname}, p: int{dflt}) -> int:", "    return p * 2 + 1", f"resolver(owner={cname})({r['name']})", ""]
        _MRES.setdefault(r["cls"], []).append(r)
        _MARGS[al_(r["name"])] = "" if r["given"] is None else f"(p: {r['given']})"
    if case.get("mres"):
        extra.insert(0, "from apischema.graphql import resolver")
    src = src + "\n".join(extra) + "\n"
    try:
        b = build.load(prog, source=src)
    except Exception as e:
        raise HarnessError(f"GraphQL program does not build: {e!r}\n{src}")
    try:
        _evaluate(case, ctx, b, src)
    finally:
        b.close()


def _evaluate(case, ctx, b, src):
    prog, ops, dyn = case["prog"], case["ops"], case["aliaser"]
    mod = b.module
    al = build.ALIASERS[dyn]
    short = src[src.find("import uuid"):]

    def viol(kind, detail, **extra):
        ctx.violation({"kind": kind, **extra}, case, f"{detail}\n{short[-1500:]}")

    try:
        queries = [getattr(mod, o["name"]) for o in ops]
        eh = case.get("error_handler")
        if eh:
            # the operation taking arguments is declared with an error handler (None: errors of the RESOLVER become
            # null; custom: a fallback value): argument errors must still be GraphQL errors, the resolver not being called
            from apischema.graphql import Query

            def _fallback(error: Exception, obj: Any, info: Any, **kwargs: Any) -> None:
                mod.CALLS.append(("error_handler", {}))
                return None

            queries[0] = Query(queries[0], error_handler=None if eh == "none" else _fallback)
        schema = graphql_schema(query=queries, aliaser=al)
    except Exception as e:
        viol("schema_construction_crash", repr(e), exc=type(e).__name__, msg=re.sub(r"[A-Za-z_]*\d+[A-Za-z_0-9]*", "N", str(e))[:50])
        return
    errs = graphql.validate_schema(schema)
    if errs:
        viol("invalid_schema", "; ".join(e.message for e in errs)[:400], msg=re.sub(r"[A-Za-z_]*\d+[A-Za-z_0-9]*", "N", errs[0].message)[:50])
        return
    try:
        graphql.print_schema(schema)
    except Exception as e:
        viol("print_schema_crash", repr(e), exc=type(e).__name__, enum_default=_has_enum_default(case))
    try:
        res = graphql.graphql_sync(schema, graphql.get_introspection_query())
        if res.errors:
            viol("introspection_errors", str(res.errors[0])[:300], enum_default=_has_enum_default(case))
    except Exception as e:
        viol("introspection_crash", repr(e), exc=type(e).__name__)
    # type map vs model
    reach_out = set()
    for o in ops:
        reach_out |= {i for k_, i in tdcase.reachable_named(prog, o["ret"], "serialization") if k_ == "cls"}
    flattened = {M.strip(f["t"], prog)["i"] for cd in prog["classes"] for f in cd["fields"] if f.get("agg") == "flatten"}
    for i in sorted(reach_out):
        cd = prog["classes"][i]
        gtp = schema.type_map.get(cd["name"])
        if not isinstance(gtp, graphql.GraphQLObjectType):
            if i in flattened:
                continue
            viol("missing_object_type", f"no object type {cd['name']} in {sorted(schema.type_map)}")
            continue
        exp_fields = {}
        _collect_fields(prog, cd, dyn, exp_fields)
        res_fields = set()
        _collect_resolvers(prog, cd, dyn, res_fields)
        if set(gtp.fields) != set(exp_fields) | res_fields:
            viol("object_fields_differ", f"type {cd['name']}: fields {sorted(gtp.fields)} expected {sorted(exp_fields)}")
            continue
        for name, (f, owner) in exp_fields.items():
            non_null = isinstance(gtp.fields[name].type, graphql.GraphQLNonNull)
            if non_null == nullable(f, owner):
                viol("nullability_differs", f"{cd['name']}.{name}: GraphQL type {gtp.fields[name].type} but model nullable={nullable(f, owner)} (field {f})", side="output")
    # execution: select everything
    qt = schema.query_type
    for o in ops:
        fname = al(o["name"])
        fld = qt.fields.get(fname)
        if fld is None:
            viol("missing_query_field", f"{fname} not in {sorted(qt.fields)}")
            continue
        if o["args"] and not all(a["default"] is not None for a in o["args"]):
            continue  # executed below with variables
        query = "{ " + fname + selection(fld.type) + " }"
        mod.CALLS.clear()
        res = graphql.graphql_sync(schema, query)
        try:
            exp = gql_image(prog, o["ret"], o["value"], dyn)
        except M.Unspecified:
            ctx.h("unspecified_image")
            continue
        if res.errors:
            viol("execution_error", f"{query}: {res.errors[0]}"[:500], msg=re.sub(r"[A-Za-z_]*\d+[A-Za-z_0-9]*", "N", str(res.errors[0].message))[:50])
        elif not M.json_eq(_unorder(exp), res.data[fname]):
            viol("result_differs", f"{query}\nexpected {json.dumps(M.plain(exp))[:500]}\ngot      {json.dumps(res.data[fname])[:500]}", node=tdcase.node_sig(prog, o["ret"]))
    # arguments
    o = ops[0]
    fname = al(o["name"])
    fld = qt.fields.get(fname)
    if fld is not None and o["args"]:
        try:
            exp_img = gql_image(prog, o["ret"], o["value"], dyn)
        except M.Unspecified:
            exp_img = None
        var_decl = ", ".join(f"${a['n']}: {fld.args[al(a['n'])].type}" for a in o["args"] if al(a["n"]) in fld.args)
        if len([a for a in o["args"] if al(a["n"]) in fld.args]) != len(o["args"]):
            viol("argument_names_differ", f"args {sorted(fld.args)} expected {[al(a['n']) for a in o['args']]}")
        else:
            for row in case["data"]:
                ctx.count()
                used = [a for a in o["args"] if a["n"] in row]
                decl = ", ".join(f"${a['n']}: {fld.args[al(a['n'])].type}" for a in used)
                call = ", ".join(f"{al(a['n'])}: ${a['n']}" for a in used)
                query = "query" + (f"({decl})" if decl else "") + " { " + fname + (f"({call})" if call else "") + selection(fld.type) + " }"
                variables = {a["n"]: _to_gql_input(prog, a["t"], gql_coerce(prog, a["t"], copy.deepcopy(row[a["n"]]), dyn), dyn) for a in used}
                mod.CALLS.clear()
                try:
                    res = graphql.graphql_sync(schema, query, variable_values=variables)
                except Exception as e:
                    viol("execution_crash", f"{query} {variables}: {e!r}", exc=type(e).__name__)
                    continue
                # expected acceptance: every given argument deserializes, every omitted one has a default
                expect_ok, expect_vals = True, {}
                for a in o["args"]:
                    if a["n"] in row:
                        try:
                            expect_vals[a["n"]] = deserialize(b.typeof(a["t"]), gql_coerce(prog, a["t"], copy.deepcopy(row[a["n"]]), dyn), aliaser=al)
                        except ValidationError:
                            expect_ok = False
                        except Exception:
                            expect_ok = None
                    elif a["default"] is None:
                        expect_ok = False
                if expect_ok is None:
                    continue
                got_ok = not res.errors
                single = dict(case, data=[row])
                if got_ok != expect_ok:
                    ctx.violation({"kind": "argument_acceptance_differs", "graphql_ok": got_ok, "arg_node": sorted({tdcase.node_sig(prog, a["t"]) for a in used})[:3]}, single,
                                  f"{query}\nvariables {json.dumps(variables)[:300]}\ndeserialize accepts={expect_ok}, GraphQL errors={[str(e)[:200] for e in (res.errors or [])][:2]}\n{short[-1200:]}")
                elif not got_ok and mod.CALLS:
                    ctx.violation({"kind": "resolver_called_despite_invalid_arguments"}, single, f"{query} {variables}: CALLS={mod.CALLS!r}")
                elif got_ok:
                    if len(mod.CALLS) != 1:
                        ctx.violation({"kind": "resolver_call_count", "n": len(mod.CALLS)}, single, f"{query}: CALLS={mod.CALLS!r}")
                    else:
                        recv = mod.CALLS[0][1]
                        for a in o["args"]:
                            if a["n"] in expect_vals and not M.canon_eq(M.canon(recv[a["n"]]), M.canon(expect_vals[a["n"]])):
                                ctx.violation({"kind": "argument_value_differs", "arg_node": tdcase.node_sig(prog, a["t"])}, single,
                                              f"{query} {variables}: resolver received {recv[a['n']]!r}, deserialize gives {expect_vals[a['n']]!r}\n{short[-1200:]}")
                    if exp_img is not None and not M.json_eq(_unorder(exp_img), res.data[fname]):
                        ctx.violation({"kind": "result_differs", "node": tdcase.node_sig(prog, o["ret"])}, single,
                                      f"{query}\nexpected {json.dumps(M.plain(exp_img))[:400]}\ngot {json.dumps(res.data[fname])[:400]}")
                depth = _depth(selection(fld.type))
                if depth >= 2:
                    ctx.nontriv([tdcase.shape(prog["root"], prog, 2), {k: tdcase.dshape(v, 2) for k, v in row.items()}, got_ok])
                    if ctx.evaluations % 5 == 0:
                        ctx.sample({"query": query, "variables": variables, "ok": got_ok, "types": short[-600:]})
    ctx.h("aliaser:" + dyn)


def _collect_resolvers(prog, cd, dyn, out):
    i = prog["classes"].index(cd)
    for r in _MRES.get(i, []):
        out.add(build.ALIASERS[dyn](r["name"]))
    for f in M.ser_fields(cd):
        if f.get("agg") == "flatten":
            _collect_resolvers(prog, prog["classes"][M.strip(f["t"], prog)["i"]], dyn, out)


def _collect_fields(prog, cd, dyn, out):
    for f in M.ser_fields(cd):
        if f.get("agg") == "flatten":
            _collect_fields(prog, prog["classes"][M.strip(f["t"], prog)["i"]], dyn, out)
        elif f.get("agg") is None:
            out[M.ext_name(f, cd, dyn)] = (f, cd)


def _has_enum_default(case) -> bool:
    s = json.dumps([a.get("default") for o in case["ops"] for a in o["args"]]) + json.dumps(
        [f.get("default") for cd in case["prog"]["classes"] for f in cd["fields"]])
    return '"enum"' in s


def _unorder(x):
    return x


def _depth(sel: str) -> int:
    d = m = 0
    for ch in sel:
        if ch == "{":
            d += 1
            m = max(m, d)
        elif ch == "}":
            d -= 1
    return m


def _to_gql_input(prog, t, d, dyn):
    """JSON datum (as deserialize takes it) -> GraphQL variable value: enum values are given by NAME."""
    k = t["k"]
    try:
        if k in ("ann",):
            return _to_gql_input(prog, t["of"], d, dyn)
        if k == "newtype":
            return _to_gql_input(prog, prog["newtypes"][t["i"]]["of"], d, dyn)
        if k == "opt":
            return None if d is None else _to_gql_input(prog, t["of"], d, dyn)
        if k == "union":
            alts = [a for a in M.union_alts(t) if a["k"] not in ("none", "undefined", "unsup")]
            return None if d is None else (_to_gql_input(prog, alts[0], d, dyn) if len(alts) == 1 else d)
        if k in ("list", "set", "frozenset") and isinstance(d, list):
            return [_to_gql_input(prog, t["of"], x, dyn) for x in d]
        if k == "enum":
            e = prog["enums"][t["i"]]
            for m, v in e["members"]:
                if v == d and type(v) is type(d):
                    return m.upper()
            return d
        if k == "lit" and isinstance(d, str) and d in t["values"]:
            return d.upper()
        if k == "cls" and isinstance(d, dict):
            cd = prog["classes"][t["i"]]
            out = {}
            names = {}
            _input_fields(prog, cd, dyn, names)
            for key, val in d.items():
                if key in names:
                    f, owner = names[key]
                    out[key] = _to_gql_input(prog, M.remove_none(f["t"]) if f.get("none_as_undefined") else f["t"], val, dyn)
                else:
                    out[key] = val
            return out
    except Exception:
        return d
    return d


def gql_coerce(prog, t, d, dyn):
    """GraphQL's own input coercion (spec): a non-list value at a list position is wrapped in a list,
    an integral float is an Int, an int is a Float.  Applied before comparing with deserialize."""
    k = t["k"]
    if k == "ann":
        return gql_coerce(prog, t["of"], d, dyn)
    if k == "newtype":
        return gql_coerce(prog, prog["newtypes"][t["i"]]["of"], d, dyn)
    if k == "opt":
        return None if d is None else gql_coerce(prog, t["of"], d, dyn)
    if k == "union":
        alts = [a for a in M.union_alts(t) if a["k"] not in ("none", "undefined", "unsup")]
        return None if d is None else (gql_coerce(prog, alts[0], d, dyn) if len(alts) == 1 else d)
    if k in ("list", "set", "frozenset"):
        if d is None:
            return d
        if not isinstance(d, list):
            d = [d]
        return [gql_coerce(prog, t["of"], x, dyn) for x in d]
    if k == "int" and isinstance(d, float) and d == int(d):
        return int(d)
    if k == "float" and isinstance(d, int) and not isinstance(d, bool):
        return float(d)
    if k == "cls" and isinstance(d, dict):
        cd = prog["classes"][t["i"]]
        names = {}
        _input_fields(prog, cd, dyn, names)
        return {key: (gql_coerce(prog, M.remove_none(names[key][0]["t"]) if names[key][0].get("none_as_undefined") else names[key][0]["t"], val, dyn)
                      if key in names else val) for key, val in d.items()}
    return d


def _input_fields(prog, cd, dyn, out):
    for f in M.des_fields(cd):
        if f.get("agg") == "flatten":
            _input_fields(prog, prog["classes"][M.strip(f["t"], prog)["i"]], dyn, out)
        elif f.get("agg") is None:
            out[M.ext_name(f, cd, dyn)] = (f, cd)
