"""C04 — serialization yields the JSON image prescribed by the type."""
from __future__ import annotations

import copy
import json

from hypothesis import strategies as st

from apischema import serialization_method, serialize

from vlib import build, gen
from vlib import model as M
from vlib import tdcase
from vlib.gen import chance, pick
from vlib.runner import HarnessError

ID = "C04"
TITLE = "Serialization yields the JSON image prescribed by the type"
RULE = ("Hypothesis draws a type program (objects with aliases, defaults, flatten, properties, skip(serialization / "
        "serialization_if / serialization_default), none_as_undefined, Undefined defaults, init=False, InitVar, TypedDict, "
        "NamedTuple, enums, NewTypes, unions without Literal members, the std converted types (UUID, dates, Decimal, bytes, Path, "
        "IPv4Address), serialized methods / properties on 35% of the dataclasses - returning a field or a constant, aliased or not, "
        "possibly Undefined, possibly the class itself), 3-6 typed values of the root type (built through the "
        "model from valid data, then perturbed towards None / default-equal / Undefined field values) and serialization options "
        "(aliaser, exclude_none, exclude_defaults, additional_properties, check_type, fall_back_on_any).  Oracle: reference model "
        "image (key order included, sets as multisets); output made only of dict-with-str-keys / list / str / int / float / bool / None "
        "with type-exact containers and json.dumps-able; serialization_method(T)(v) identical; serialize(v) == serialize(type(v), v) "
        "for non-generic classes.  Non-trivial: the value contains an object with >= 1 omitted and >= 1 emitted field, or an "
        "aggregate (flatten / properties) field, or a set/tuple/enum.  Distinct = hash(type shape, value shape, options).")
ASSUMPTIONS = ["values are well-typed instances of the root type (ill-typed values are outside the statement)",
               "exclude_none on a non-Optional field holding None, and a value fitting only a later same-class union alternative, are UNSPECIFIED"]
BUDGET = {"quick": 1600, "thorough": 14000}
SHARDS = {"quick": 8, "thorough": 16}
MIN_NONTRIVIAL = {"quick": 1500, "thorough": 30000}
TECHNIQUE = "property-based testing (Hypothesis): generated type programs x typed values x options vs independent reference serializer"
LEVEL_TEXT = ("Exploration: ~30k (quick) / ~1M (thorough) (type, value, options) cases compared with an independent reference serializer "
              "(omission rules, aliases, flatten merge, ordering) plus JSON-only output walk and method/function/type-less agreement.")
LEVEL_NOTE = "Trusted: vlib/model.py serializer (documented rules), value construction through the rendered constructors."


@st.composite
def strategy_(draw, tier):
    cfg = {"max_depth": 3 if tier == "quick" else 4, "generics": True, "field_conv": True, "std": True, "methods": True, "lit_in_union": False, "unsup": False}
    prog = draw(gen.programs(cfg))
    opts = {
        "aliaser": pick(draw, ["id", "id", "camel", "pfx"]),
        "exclude_none": chance(draw, 0.3),
        "exclude_defaults": chance(draw, 0.3),
        "additional_properties": chance(draw, 0.3),
        "check_type": chance(draw, 0.3),
        "fall_back_on_any": chance(draw, 0.2),
    }
    n = draw(st.integers(3, 6))
    values = []
    for _ in range(n):
        v = gen.value_for(draw, prog, prog["root"])
        v = gen.perturb_value(draw, prog, prog["root"], v)
        values.append(v)
    return {"prog": prog, "opts": opts, "values": values}


def strategy(tier):
    return strategy_(tier)


def describe(case):
    return tdcase.describe(case)


def ser_kwargs(opts):
    return {
        "aliaser": build.ALIASERS[opts.get("aliaser", "id")],
        "exclude_none": bool(opts.get("exclude_none")),
        "exclude_defaults": bool(opts.get("exclude_defaults")),
        "additional_properties": bool(opts.get("additional_properties")),
        "check_type": bool(opts.get("check_type")),
        "fall_back_on_any": bool(opts.get("fall_back_on_any")),
    }


def json_only(x, path="$"):
    """None if x is made of JSON types only (containers type-exact), else the offending path."""
    if x is None or isinstance(x, (bool, int, float, str)):
        return None
    if x.__class__ is list:
        for i, y in enumerate(x):
            r = json_only(y, f"{path}[{i}]")
            if r:
                return r
        return None
    if x.__class__ is dict:
        for k, y in x.items():
            if not isinstance(k, str):
                return f"{path}: key {k!r}"
            r = json_only(y, f"{path}.{k}")
            if r:
                return r
        return None
    return f"{path}: {x.__class__.__name__}"


def vshape(c, depth=3):
    if depth <= 0 or not isinstance(c, list) or not c:
        return "."
    tag = c[0]
    if tag in ("list", "tuple", "set", "frozenset"):
        return [tag] + [vshape(x, depth - 1) for x in c[1][:3]]
    if tag == "dict":
        return [tag, len(c[1])]
    if tag == "tdict":
        return [tag, sorted(c[1])[:4]]
    if tag == "obj":
        return [tag, {k: vshape(v, depth - 1) for k, v in list(c[2].items())[:5]}]
    return tag


def interesting(c) -> bool:
    if not isinstance(c, list) or not c:
        return False
    if c[0] in ("set", "frozenset", "tuple", "enum"):
        return True
    if c[0] in ("list",):
        return any(interesting(x) for x in c[1])
    if c[0] == "dict":
        return any(interesting(v) for _, v in c[1])
    if c[0] == "tdict":
        return any(interesting(v) for v in c[1].values())
    if c[0] == "obj":
        return any(interesting(v) for v in c[2].values())
    return False


def evaluate(case, ctx):
    prog, opts = case["prog"], case["opts"]
    try:
        b = build.load(prog)
    except Exception as e:
        raise HarnessError(f"generated program does not build: {e!r}\n{build.render(prog)}")
    try:
        _evaluate(case, ctx, b, prog, opts)
    finally:
        b.close()


def _evaluate(case, ctx, b, prog, opts):
    kw = ser_kwargs(opts)
    tp = b.root
    model = M.Model(prog)
    sopts = M.SerOpts(**opts)
    root = prog["root"]
    try:
        method = serialization_method(tp, **kw)
        classes = tdcase.tree_classes(getattr(method, "__self__", None)) if hasattr(method, "__self__") else ["IdentityMethod"]
    except Exception as e:
        ctx.count()
        ctx.violation({"kind": "compile_crash", "exc": type(e).__name__, "msg": str(e)[:60]}, {"prog": prog, "opts": opts, "values": []}, repr(e))
        return
    for c in set(classes):
        ctx.h("node:" + c)
    for vc in case["values"]:
        ctx.count()
        single = {"prog": prog, "opts": opts, "values": [vc]}
        try:
            real = b.value(vc)
        except Exception as e:
            raise HarnessError(f"cannot build value {vc!r}: {e!r}\n{b.source}")
        if not M.canon_eq(M.canon(real), vc):
            ctx.h("value_not_reconstructible")
            continue
        try:
            expected = model.serialize(root, vc, sopts)
        except M.Unspecified:
            ctx.h("unspecified")
            continue
        except M.Mismatch:
            raise HarnessError(f"generated value is not a value of the type: {vc!r}\n{b.source}")
        try:
            out = serialize(tp, real, **kw)
        except Exception as e:
            ctx.violation({"kind": "crash", "exc": type(e).__name__, "root": tdcase.node_sig(prog, root)}, single, f"{e!r} serializing {real!r}"[:600])
            continue
        bad = json_only(out)
        if bad:
            ctx.violation({"kind": "non_json_output", "what": bad.split(": ")[-1]}, single, f"{bad} in {out!r}"[:600])
        else:
            try:
                json.dumps(out)
            except Exception as e:
                ctx.violation({"kind": "not_dumpable"}, single, repr(e))
        if not bad and not M.json_eq(expected, out):
            lt, lv = localize(b, model, sopts, kw, prog, root, vc)
            ctx.violation({"kind": "image_differs", "node": tdcase.node_sig(prog, lt), "value": lv[0],
                           "opts": sorted(k for k in ("exclude_none", "exclude_defaults", "additional_properties", "check_type", "fall_back_on_any") if opts.get(k))},
                          single, f"expected {tdcase.compact(M.plain(expected), 500)}\ngot      {tdcase.compact(out, 500)}\n"
                                  f"localised at {build.texpr(lt, prog)} value {tdcase.compact(lv, 200)}")
        try:
            out2 = method(real)
            if not M.json_eq(out if not bad else expected, out2) and not bad:
                ctx.violation({"kind": "method_differs"}, single, f"serialize -> {out!r}; serialization_method -> {out2!r}"[:600])
        except Exception as e:
            ctx.violation({"kind": "method_crash", "exc": type(e).__name__}, single, repr(e)[:300])
        if root["k"] == "cls" and not root.get("args") and prog["classes"][root["i"]]["flavor"] != "typeddict":
            kw2 = dict(kw)
            kw2.pop("fall_back_on_any")
            try:
                out3 = serialize(real, **kw2)
                if not bad and not M.json_eq(out, out3):
                    ctx.violation({"kind": "typeless_differs"}, single, f"serialize(T, v) -> {out!r}; serialize(v) -> {out3!r}"[:600])
            except Exception as e:
                ctx.violation({"kind": "typeless_crash", "exc": type(e).__name__}, single, repr(e)[:300])
        omitted, emitted, agg = stats(prog, vc, expected)
        if (omitted and emitted) or agg or interesting(vc):
            ctx.nontriv([tdcase.shape(root, prog), vshape(vc), sorted(k for k, v in opts.items() if v and k != "aliaser"), opts.get("aliaser")])
            ctx.sample({"type": b.source.split("import uuid, datetime, decimal, pathlib, ipaddress")[-1].strip()[-700:], "options": opts,
                        "value": repr(real)[:300], "image": M.plain(expected)})
        ctx.h(f"omitted:{min(omitted, 3)}")


def stats(prog, vc, expected):
    """(#omitted fields, #emitted fields, has aggregate) over the objects of the value."""
    omitted = emitted = 0
    agg = False

    def rec(c):
        nonlocal omitted, emitted, agg
        if not isinstance(c, list) or not c:
            return
        if c[0] == "obj":
            cd = next(x for x in prog["classes"] if x["name"] == c[1])
            if any(f.get("agg") for f in cd["fields"]):
                agg = True
            for v in c[2].values():
                rec(v)
        elif c[0] in ("list", "tuple", "set", "frozenset"):
            for x in c[1]:
                rec(x)
        elif c[0] == "dict":
            for _, x in c[1]:
                rec(x)
        elif c[0] == "tdict":
            for x in c[1].values():
                rec(x)

    rec(vc)
    if vc and vc[0] == "obj" and isinstance(expected, dict):
        cd = next(x for x in prog["classes"] if x["name"] == vc[1])
        n = len(M.ser_fields(cd))
        emitted = len(expected)
        omitted = max(0, n - emitted) if not any(f.get("agg") for f in cd["fields"]) else (1 if n > emitted else 0)
    return omitted, emitted, agg


def localize(b, model, sopts, kw, prog, t, v, depth=0):
    """Descend while some child (sub-type, sub-value) still disagrees."""
    if depth > 10:
        return t, v
    for ct, cv in value_children(prog, t, v):
        try:
            exp = model.serialize(ct, cv, sopts)
            out = serialize(b.typeof(ct), b.value(cv), **kw)
        except Exception:
            continue
        if not M.json_eq(exp, out):
            return localize(b, model, sopts, kw, prog, ct, cv, depth + 1)
    return t, v


def value_children(prog, t, v):
    k = t["k"]
    if k == "ann":
        return [(t["of"], v)]
    if k == "newtype":
        return [(prog["newtypes"][t["i"]]["of"], v)]
    if k in ("opt", "union"):
        out = []
        for a in M.union_alts(t):
            try:
                if a["k"] not in ("unsup", "undefined", "none") and M.class_matches(prog, a, v):
                    out.append((a, v))
                    break
            except M.Unspecified:
                pass
        return out
    if k in ("list", "set", "frozenset", "vartuple") and v[0] in ("list", "tuple", "set", "frozenset"):
        return [(t["of"], x) for x in v[1]]
    if k == "tuple" and v[0] == "tuple":
        return list(zip(t["items"], v[1]))
    if k == "map" and v[0] == "dict":
        return [(t["val"], x) for _, x in v[1]]
    if k == "cls" and v[0] == "obj":
        cd = prog["classes"][t["i"]]
        return [(f["t"], v[2][f["n"]]) for f in M.ser_fields(cd) if f["n"] in v[2] and v[2][f["n"]][0] != "undef"]
    if k == "cls" and v[0] == "tdict":
        cd = prog["classes"][t["i"]]
        return [(f["t"], v[1][f["n"]]) for f in cd["fields"] if f["n"] in v[1]]
    return []
