"""C10 — validators run exactly when their inputs are valid; all errors are merged."""
from __future__ import annotations

import itertools
import json

from hypothesis import strategies as st

from apischema import ValidationError, deserialize

from vlib import build
from vlib.gen import chance, pick
from vlib.runner import HarnessError

ID = "C10"
TITLE = "Validators run exactly when their inputs are valid; all errors are merged"
RULE = ("Programs are rendered dataclasses with 1-3 int fields (required / defaulted / InitVar, optionally aliased, optionally linked by "
        "dependent_required - a missing dependent field counts as invalid -, constrained by "
        "schema(min=0)) and 1-3 validators.  Per validator: the set of fields it reads (directly, through a helper method, through a "
        "property), declared InitVar parameters, field= / discard= (including a discarded field it does not read), failure form (raise, "
        "yield message, yield (alias path, message), yield (raw path, message)), placement (class body, base class, function with owner=).  "
        "Every validator appends its id to a log and fails iff a control table says so.  Bounded-exhaustive part: every program with <= 2 "
        "fields and <= 2 validators over a reduced option grid; each program is run on EVERY datum assigning each field one of {absent, "
        "valid, invalid} and EVERY pass/fail assignment, under an identity and a camelCase/prefix aliaser.  Hypothesis adds 3-field / "
        "3-validator programs with inheritance.  Oracle (model): expected call log per class (exactly once each, declaration order), merged "
        "error list (structural + validator errors at aliased locations), constructor count (0 when any error), termination (watchdog on log "
        "length and RecursionError).  Non-trivial: >= 2 validators with different dependency sets and >= 1 field invalid or absent-with-"
        "default.  Distinct = hash(program, datum statuses, control table).")
ASSUMPTIONS = ["relative order of validators of a base class and of a subclass is not documented: compared per class; cases where a discard crosses classes are UNSPECIFIED",
               "validators only read int fields; user code raising anything else than ValidationError is not generated"]
BUDGET = {"quick": 120, "thorough": 3000}
FUZZ = {"quick": 0, "thorough": 0}  # decided by enumeration (no Hypothesis strategy to drive)
SHARDS = {"quick": 8, "thorough": 16}
MIN_NONTRIVIAL = {"quick": 3000, "thorough": 60000}
TECHNIQUE = "bounded-exhaustive enumeration of validator programs x field statuses x outcomes + Hypothesis for larger programs, against a reference model of the documented rules"
LEVEL_TEXT = ("Exploration with an exhaustively enumerated core: each generated validator program is executed on all 3^n field-status data and all 2^m "
              "validator outcomes; call log, merged errors and constructor count are compared with a model of validation.md.")
LEVEL_NOTE = "Trusted: the ~80-line model below; rendered source is registered in linecache so that apischema's AST dependency analysis sees it."

FORMS = ["raise", "yield", "yield_alias", "yield_raw"]
READS = ["direct", "helper", "property"]


# ---------------------------------------------------------------------------------------
# programs
# ---------------------------------------------------------------------------------------
# program = {"fields": [{"n","kind": "req"|"def"|"iv_req"|"iv_def", "alias": str|None}], "split": k|None,
#            "cls_aliaser": None|"upper", "validators": [{"id","deps":[field idx],"read": READS, "form": FORMS,
#            "field": idx|None, "discard": [idx]|None, "where": "class"|"base"|"func", "path_field": idx}]}

def enumerate_cases(tier):
    nmax = 2
    kinds = ["req", "def"]
    for n in range(1, nmax + 1):
        for fkinds in itertools.product(kinds + (["iv_req"] if n >= 2 else []), repeat=n):
            if all(k.startswith("iv") for k in fkinds):
                continue
            for aliased in itertools.product([False, True], repeat=n):
                fields = [{"n": f"f{i}", "kind": fkinds[i], "alias": f"A{i}" if aliased[i] else None} for i in range(n)]
                subsets = [list(s) for r in range(0, n + 1) for s in itertools.combinations(range(n), r)]
                for m in (1, 2):
                    for deps in itertools.product(subsets, repeat=m):
                        h = abs(hash((n, fkinds, aliased, repr(deps))))
                        # option grid, rotated by hash so that every option value meets every dependency shape
                        for variant in range(3 if tier == "quick" else 6):
                            hv = h + variant * 7919
                            vals = []
                            for j in range(m):
                                hj = hv // (j + 1)
                                fopt = [None] + list(range(n))
                                dopt = [None] + [[i] for i in range(n)]
                                vals.append({
                                    "id": f"v{j}", "deps": deps[j], "read": READS[(hj // 3) % 3], "form": FORMS[(hj // 5) % 4],
                                    "field": fopt[(hj // 11) % len(fopt)], "discard": dopt[(hj // 13) % len(dopt)],
                                    "where": ["class", "class", "func"][(hj // 17) % 3], "path_field": (hj // 19) % n,
                                })
                            # the `field=` target must be a real field (not an InitVar)
                            for v in vals:
                                if v["field"] is not None and fields[v["field"]]["kind"].startswith("iv"):
                                    v["field"] = None
                                if fields[v["path_field"]]["kind"].startswith("iv"):
                                    v["path_field"] = next(i for i, f in enumerate(fields) if not f["kind"].startswith("iv"))
                            case = {"fields": fields, "split": None, "cls_aliaser": "upper" if (hv // 23) % 4 == 0 else None,
                                    "validators": vals, "dyn": ["id", "camel", "pfx"][(hv // 29) % 3]}
                            yield case
                            # dependent_required between two fields: a missing dependent field is invalid for the validators
                            defs = [i for i in range(n) if fkinds[i] == "def"]
                            others = [i for i in range(n) if not fkinds[i].startswith("iv")]
                            if defs and len(others) >= 2 and variant == 0:
                                b_ = defs[(hv // 31) % len(defs)]
                                a_ = [i for i in others if i != b_][(hv // 37) % (len(others) - 1)]
                                yield dict(case, dep_req=[a_, b_])


@st.composite
def strategy_(draw, tier):
    n = draw(st.integers(2, 3))
    fields = []
    for i in range(n):
        kind = pick(draw, ["req", "def", "req", "def", "iv_req", "iv_def"])
        fields.append({"n": f"f{i}" if i % 2 == 0 else f"g_{i}", "kind": kind, "alias": f"A{i}" if chance(draw, 0.4) else None})
    if all(f["kind"].startswith("iv") for f in fields):
        fields[0]["kind"] = "req"
    real = [i for i, f in enumerate(fields) if not f["kind"].startswith("iv")]
    m = draw(st.integers(1, 3))
    split = draw(st.integers(1, n - 1)) if chance(draw, 0.3) and not any(f["kind"].startswith("iv") for f in fields) else None
    vals = []
    for j in range(m):
        deps = sorted(draw(st.sets(st.integers(0, n - 1), max_size=n)))
        where = pick(draw, ["class", "class", "func"] + (["base"] if split else []))
        if where == "base":
            deps = [d for d in deps if d < split]
        vals.append({"id": f"v{j}", "deps": deps, "read": pick(draw, READS), "form": pick(draw, FORMS),
                     "field": pick(draw, [None, None] + real), "discard": pick(draw, [None, None] + [[i] for i in range(n)]),
                     "where": where, "path_field": pick(draw, real)})
        if split and where != "base" and vals[-1]["read"] != "direct" and chance(draw, 0.6):
            vals[-1]["helper_in_base"] = True
        if where == "base":
            v = vals[-1]
            if v["field"] is not None and v["field"] >= split:
                v["field"] = None
            if v["discard"] and v["discard"][0] >= split:
                v["discard"] = None
            if v["path_field"] >= split:
                v["path_field"] = 0
    case = {"fields": fields, "split": split, "cls_aliaser": pick(draw, [None, None, "upper"]), "validators": vals,
            "dyn": pick(draw, ["id", "camel", "pfx"])}
    defs = [i for i, f in enumerate(fields) if f["kind"] == "def"]
    if split is None and defs and len(real) >= 2 and chance(draw, 0.4):
        b_ = pick(draw, defs)
        case["dep_req"] = [pick(draw, [i for i in real if i != b_]), b_]
    return case


def strategy(tier):
    return strategy_(tier)


def render(p) -> str:
    fields, vals, split = p["fields"], p["validators"], p.get("split")
    lines = ["from apischema.objects import get_alias", ""]

    def fline(i):
        f = fields[i]
        md = ["schema(min=0)"]
        if f["alias"]:
            md.insert(0, f"alias({f['alias']!r})")
        te = "int"
        if f["kind"].startswith("iv"):
            te = "InitVar[int]"
        args = []
        if f["kind"] in ("def", "iv_def"):
            args.append("default=5")
        args.append("metadata=" + " | ".join(md))
        return f"    {f['n']}: {te} = field({', '.join(args)})"

    def vlines(v, indent="    ", owner=None):
        ivs = [fields[i]["n"] for i in v["deps"] if fields[i]["kind"].startswith("iv")]
        reads = [fields[i]["n"] for i in v["deps"] if not fields[i]["kind"].startswith("iv")]
        args = []
        if v["field"] is not None:
            args.append(repr(fields[v["field"]]["n"]))
        if v["discard"] is not None:
            args.append("discard=[" + ", ".join(repr(fields[i]["n"]) for i in v["discard"]) + "]")
        if owner:
            args.append(f"owner={owner}")
        deco = "@validator" + (f"({', '.join(args)})" if args else "")
        sig = "self" + "".join(f", {x}" for x in ivs)
        out = [f"{indent}{deco}", f"{indent}def {v['id']}({sig}):", f"{indent}    LOG.append({v['id']!r})"]
        for x in ivs:
            out.append(f"{indent}    _ = {x} + 0")
        if reads:
            if v["read"] == "direct":
                for x in reads:
                    out.append(f"{indent}    _ = self.{x} + 0")
            elif v["read"] == "helper":
                out.append(f"{indent}    _ = self.h_{v['id']}()")
            else:
                out.append(f"{indent}    _ = self.p_{v['id']}")
        pf = fields[v["path_field"]]["n"]
        fail = {
            "raise": f"raise ValidationError('{v['id']} failed')",
            "yield": f"yield '{v['id']} failed'",
            "yield_alias": f"yield get_alias(self).{pf}, '{v['id']} failed'",
            "yield_raw": f"yield ('raw', 3), '{v['id']} failed'",
        }[v["form"]]
        out.append(f"{indent}    if CTRL.get({v['id']!r}):")
        out.append(f"{indent}        {fail}")
        return out, reads

    def helpers(v, reads):
        out = []
        if reads and v["read"] == "helper":
            out += [f"    def h_{v['id']}(self):", "        return " + " + ".join(f"self.{x}" for x in reads)]
        if reads and v["read"] == "property":
            out += ["    @property", f"    def p_{v['id']}(self):", "        return " + " + ".join(f"self.{x}" for x in reads)]
        return out

    n = len(fields)
    base_fields = range(split) if split else []
    if split:
        lines += ["@dataclass(kw_only=True)", "class Base:"] + [fline(i) for i in base_fields]
        for v in vals:
            if v["where"] == "base":
                vl, reads = vlines(v)
                lines += helpers(v, reads) + vl
            elif v.get("helper_in_base"):
                # the validator is declared on C (or as a function), the helper / property it reads the fields through is inherited
                lines += helpers(v, vlines(v)[1])
        lines.append("")
    if p.get("cls_aliaser"):
        lines.append(f"@alias({p['cls_aliaser']})")
    lines += ["@dataclass(kw_only=True)", "class C(Base):" if split else "class C:"]
    lines += [fline(i) for i in range(split or 0, n)]
    if p.get("dep_req"):
        a_, b_ = p["dep_req"]
        lines.append(f"    _dep = dependent_required({{{fields[a_]['n']!r}: [{fields[b_]['n']!r}]}})")
    ivs_all = [f["n"] for f in fields if f["kind"].startswith("iv")]
    lines += ["    def __post_init__(self" + "".join(f", {x}" for x in ivs_all) + "):", "        LOG.append('init')"]
    for v in vals:
        if v["where"] in ("class", "func"):
            vl, reads = vlines(v)
            if not (split and v.get("helper_in_base")):
                lines += helpers(v, reads)
            if v["where"] == "class":
                lines += vl
    lines.append("")
    for v in vals:
        if v["where"] == "func":
            vl, _ = vlines(v, indent="", owner="C")
            lines += vl + [""]
    lines.append("ROOT = C")
    return "\n".join(lines) + "\n"


def describe(case):
    return render(case["prog"] if "prog" in case else case)


# ---------------------------------------------------------------------------------------
# model (validation.md)
# ---------------------------------------------------------------------------------------

def ext(p, i) -> str:
    f = p["fields"][i]
    name = f["alias"] or f["n"]
    owner_is_c = not (p.get("split") and i < p["split"])
    if p.get("cls_aliaser") and owner_is_c and False:
        pass
    if p.get("cls_aliaser"):
        # a class aliaser applies to all the fields of the decorated class (inherited ones included)
        name = build.ALIASERS[p["cls_aliaser"]](name)
    return build.ALIASERS[p["dyn"]](name)


class Unspec(Exception):
    pass


def expected(p, status, ctrl):
    fields, vals = p["fields"], p["validators"]
    errors, values, invalid = [], set(), set()
    for i, f in enumerate(fields):
        st_ = status[i]
        req = f["kind"] in ("req", "iv_req")
        if st_ == "valid":
            values.add(i)
        elif st_ == "invalid":
            errors.append(((ext(p, i),), "less than 0 (minimum)"))
            invalid.add(i)
        elif req:
            errors.append(((ext(p, i),), "missing property"))
            invalid.add(i)
        elif p.get("dep_req") and p["dep_req"][1] == i and status[p["dep_req"][0]] != "absent":
            # dependent_required: the requiring property is in the data (valid or not), this one is not
            errors.append(((ext(p, i),), f"missing property (required by [{ext(p, p['dep_req'][0])!r}])"))
            invalid.add(i)
    structural = bool(errors)
    # registration order: class-body validators of C, then functions (registered after the class); base class apart
    order_c = [v for v in vals if v["where"] == "class"] + [v for v in vals if v["where"] == "func"]
    order_b = [v for v in vals if v["where"] == "base"]
    runnable = [v for v in vals if set(v["deps"]) & values and not set(v["deps"]) & invalid]
    discarders = [v for v in runnable if ctrl.get(v["id"]) and (v["discard"] is not None or v["field"] is not None)]
    if order_b and discarders and any(
            (set(d["discard"] if d["discard"] is not None else [d["field"]]) & set(v["deps"])) and (d["where"] == "base") != (v["where"] == "base")
            for d in discarders for v in runnable if v is not d):
        raise Unspec("discard crossing classes")
    log = {"c": [], "b": []}
    discarded = set()
    for group, key in ((order_c, "c"), (order_b, "b")):
        for v in group:
            if v not in runnable or set(v["deps"]) & discarded:
                continue
            log[key].append(v["id"])
            if ctrl.get(v["id"]):
                msg = f"{v['id']} failed"
                loc = ()
                if v["form"] == "yield_alias":
                    loc = (ext(p, v["path_field"]),)
                elif v["form"] == "yield_raw":
                    loc = ("raw", 3)
                if v["field"] is not None:
                    loc = (ext(p, v["field"]),) + loc
                errors.append((loc, msg))
                disc = v["discard"] if v["discard"] is not None else ([v["field"]] if v["field"] is not None else [])
                discarded |= set(disc)
    return {"log": log, "errors": sorted(errors, key=repr), "construct": 0 if errors else 1, "structural": structural}


# ---------------------------------------------------------------------------------------
# evaluation
# ---------------------------------------------------------------------------------------

def evaluate(case, ctx):
    p = case.get("prog", case)
    src = render(p)
    try:
        b = build.load({"future": True, "enums": [], "newtypes": [], "classes": []}, source=build.PRELUDE + src)
    except Exception as e:
        raise HarnessError(f"validator program does not build: {e!r}\n{src}")
    try:
        _evaluate(p, case, ctx, b, src)
    finally:
        b.close()


def _evaluate(p, case, ctx, b, src):
    C, mod = b.module.C, b.module
    fields, vals = p["fields"], p["validators"]
    n, m = len(fields), len(vals)
    al = build.ALIASERS[p["dyn"]]
    deps_shapes = {tuple(v["deps"]) for v in vals}
    only = case.get("only")  # replay of a single (status, ctrl)
    combos = [only] if only else [
        {"status": list(s), "ctrl": {vals[j]["id"]: bool(c[j]) for j in range(m)}}
        for s in itertools.product(["absent", "valid", "invalid"], repeat=n) for c in itertools.product([0, 1], repeat=m)]
    for combo in combos:
        status, ctrl = combo["status"], combo["ctrl"]
        ctx.count()
        single = {"prog": p, "only": combo}
        d = {}
        for i, st_ in enumerate(status):
            if st_ == "valid":
                d[ext(p, i)] = 1 + i
            elif st_ == "invalid":
                d[ext(p, i)] = -1
        mod.LOG.clear()
        mod.CTRL.clear()
        mod.CTRL.update(ctrl)
        got_err = None
        try:
            deserialize(C, dict(d), aliaser=al)
        except ValidationError as e:
            got_err = sorted(((tuple(x["loc"]), x["err"]) for x in e.errors), key=repr)
        except RecursionError:
            ctx.violation({"kind": "non_termination", "exc": "RecursionError", "discard_unread": _discards_unread(p, ctrl)}, single,
                          f"RecursionError deserializing {d} with CTRL={ctrl}\n{src}")
            continue
        except Exception as e:
            ctx.violation({"kind": "crash", "exc": type(e).__name__, "aliased": any(f["alias"] for f in fields) or p["dyn"] != "id" or bool(p.get("cls_aliaser"))},
                          single, f"{e!r} deserializing {d} with CTRL={ctrl}\n{src}")
            continue
        log = list(mod.LOG)
        if len(log) > 4 * (m + 1):
            ctx.violation({"kind": "non_termination", "exc": "log_overflow"}, single, f"log {log[:20]}...\n{src}")
            continue
        try:
            exp = expected(p, status, ctrl)
        except Unspec:
            ctx.h("unspecified")
            continue
        base_ids = {v["id"] for v in vals if v["where"] == "base"}
        got_log = {"c": [x for x in log if x != "init" and x not in base_ids], "b": [x for x in log if x in base_ids]}
        aliased = any(f["alias"] for f in fields) or p["dyn"] != "id" or bool(p.get("cls_aliaser"))
        if got_log != exp["log"]:
            extra = [x for k in ("c", "b") for x in got_log[k] if x not in exp["log"][k]]
            missing = [x for k in ("c", "b") for x in exp["log"][k] if x not in got_log[k]]
            dup = any(got_log[k].count(x) > 1 for k in got_log for x in got_log[k])
            kind = "ran_twice" if dup else "ran_but_should_not" if extra else "did_not_run" if missing else "order"
            ctx.violation({"kind": kind, "structural_errors": exp["structural"], "aliased": aliased}, single,
                          f"datum {d} statuses {status} CTRL {ctrl}\nexpected calls {exp['log']} got {got_log}\n{src}")
        elif (got_err or []) != exp["errors"]:
            ctx.violation({"kind": "errors_differ", "structural_errors": exp["structural"], "aliased": aliased,
                           "forms": sorted({v["form"] for v in vals if ctrl.get(v["id"])}), "field_param": any(v["field"] is not None for v in vals if ctrl.get(v["id"]))},
                          single, f"datum {d} statuses {status} CTRL {ctrl}\nexpected {exp['errors']}\ngot      {got_err}\n{src}")
        elif log.count("init") != exp["construct"]:
            ctx.violation({"kind": "constructed_despite_error" if log.count("init") > exp["construct"] else "not_constructed",
                           "structural_errors": exp["structural"]}, single,
                          f"datum {d} CTRL {ctrl}: constructor ran {log.count('init')} time(s), expected {exp['construct']}; errors {exp['errors']}\n{src}")
        if len(deps_shapes) >= 2 and any(s == "invalid" or (s == "absent" and fields[i]["kind"] in ("def", "iv_def")) for i, s in enumerate(status)):
            ctx.nontriv([p, status, ctrl])
            if ctx.evaluations % 7 == 0:
                ctx.sample({"program": src, "datum": d, "control": ctrl, "calls": log, "errors": got_err})


def _discards_unread(p, ctrl) -> bool:
    for v in p["validators"]:
        if ctrl.get(v["id"]):
            disc = v["discard"] if v["discard"] is not None else ([v["field"]] if v["field"] is not None else [])
            if disc and not set(disc) & set(v["deps"]):
                return True
    return False
