"""C16 — field order is a deterministic function of declaration and order() specs."""
from __future__ import annotations

import itertools

from hypothesis import strategies as st

from apischema import serialize
from apischema.json_schema import definitions_schema, deserialization_schema, serialization_schema

from vlib import build
from vlib.gen import chance, pick
from vlib.runner import HarnessError

ID = "C16"
TITLE = "Field order is a deterministic function of declaration and order() specs"
RULE = ("Bounded-exhaustive: every dataclass of 1-3 (quick) / 1-4 (thorough) elements (k fields followed by n-k serialized "
        "methods, half of the programs with methods registering them under an alias different from their name), every assignment to each element of an ordering spec in {none, order(-1|0|1|999), order(after=x), order(before=x) "
        "for every other element x} without cycles, crossed with class-level overrides {none, order({elt: spec}) for one element, "
        "order([permutation])} and, for n >= 2, a one-level inheritance split with overrides on the base class alone and in conflict with "
        "an override of the same field on the subclass (the most derived one wins, MRO); Hypothesis adds 5-6 element classes.  Oracle: an "
        "independent validity predicate of the documented rule over the key sequence of serialize, of `properties` in "
        "serialization_schema, of the definition merged from both directions by definitions_schema, (restricted to fields) in deserialization_schema, and of the GraphQL object type: the sequence is a "
        "permutation of the declared elements; un-attached elements are in ascending (order value, declaration index); every "
        "after/before element is on the right/left of its target and each element's attachment cluster is contiguous; all views agree.  "
        "Non-trivial: >= 1 after/before spec and >= 2 distinct order values (or a class-level override).  Distinct = the program.")
ASSUMPTIONS = ["the relative order of several elements attached to the same target in the same direction is not documented: any order is accepted",
               "after/before targets always name an element of the same view unless the case is tagged target_absent (reported separately)"]
BUDGET = {"quick": 150, "thorough": 3000}
FUZZ = {"quick": 0, "thorough": 0}  # decided by enumeration (no Hypothesis strategy to drive)
SHARDS = {"quick": 8, "thorough": 16}
MIN_NONTRIVIAL = {"quick": 1000, "thorough": 20000}
TECHNIQUE = "bounded-exhaustive enumeration of ordering programs (<= 3/4 elements) + Hypothesis for larger ones, checked by an independent validity predicate"
LEVEL_TEXT = ("Exploration with an exhaustively enumerated core: all ordering programs up to 3 (quick) / 4 (thorough) elements with every spec "
              "assignment and a family of class-level overrides and inheritance splits are rendered, compiled and checked in four views.")
LEVEL_NOTE = "Trusted: the ~40-line validity predicate below; programs use int fields with defaults and constant serialized methods."

VALUES = [-1, 0, 1, 999]


def specs_for(i, n):
    out = [None] + [{"v": v} for v in VALUES]
    for j in range(n):
        if j != i:
            out.append({"after": j})
            out.append({"before": j})
    return out


def acyclic(specs) -> bool:
    for i in range(len(specs)):
        seen, cur = set(), i
        while cur is not None and isinstance(specs[cur], dict) and ("after" in specs[cur] or "before" in specs[cur]):
            if cur in seen:
                return False
            seen.add(cur)
            cur = specs[cur].get("after", specs[cur].get("before"))
    return True


def enumerate_cases(tier):
    nmax = 3 if tier == "quick" else 4
    for n in range(1, nmax + 1):
        for k in range(0 if n > 1 else 1, n + 1):  # k fields then n-k methods
            if k == 0:
                continue
            for specs in itertools.product(*[specs_for(i, n) for i in range(n)]):
                if not acyclic(specs):
                    continue
                h0 = hash((n, k, repr(specs)))
                base = {"n": n, "k": k, "specs": list(specs), "cls": None, "split": None, "resolver": bool(k < n and (h0 // 5) % 2)}
                yield base
                if any(sp is not None for sp in specs[:k]) and (tier != "quick" or (h0 // 31) % 2 == 0):
                    yield dict(base, annotated=True)  # field-level order given through Annotated[int, order(...)] (data_model.md)
                if k < n and (h0 // 29) % 2 == 0:  # serialized methods under an alias different from their name
                    yield dict(base, malias=list(range(k, n)))
                # class-level overrides: one element overridden / list form; inheritance split
                h = hash((n, k, repr(specs)))
                i = h % n
                for c in [dict(base, cls={"map": {str(i): {"v": VALUES[(h // 7) % 4]}}})]:
                    if acyclic(effective_specs(c)):
                        yield c
                if n >= 2:
                    j = (i + 1) % n
                    perm = list(range(n))
                    perm = perm[(h // 3) % n:] + perm[:(h // 3) % n]
                    for c in (dict(base, cls={"map": {str(i): {"after": j}, str(j): None}}), dict(base, cls={"list": perm})):
                        if acyclic(effective_specs(c)):  # a class-level override can close a cycle with field-level specs
                            yield c
                    if k >= 2 and (h // 11) % 3 == 0:
                        split = 1 + (h // 13) % (k - 1)
                        yield dict(base, split=split)
                        # overrides on the base class, alone and in conflict with one on the subclass for the same field
                        b0 = (h // 17) % split
                        v1, v2 = VALUES[(h // 19) % 4], VALUES[(h // 23) % 4]
                        for c in (dict(base, split=split, cls_base={"map": {str(b0): {"v": v1}}}),
                                  dict(base, split=split, cls_base={"map": {str(b0): {"v": v1}}}, cls={"map": {str(b0): {"v": v2}}}),
                                  dict(base, split=split, cls_base={"map": {str(b0): {"v": v1}}}, cls={"map": {str(b0): None, str(k - 1): {"v": v1}}})):
                            if acyclic(effective_specs(c)):
                                yield c


@st.composite
def strategy_(draw, tier):
    n = draw(st.integers(5, 6))
    k = draw(st.integers(2, n))
    for _ in range(20):
        specs = [draw(st.sampled_from(specs_for(i, n))) for i in range(n)]
        if acyclic(specs):
            break
    else:
        specs = [None] * n
    case = {"n": n, "k": k, "specs": specs, "cls": None, "split": None, "resolver": k < n and chance(draw, 0.5)}
    if k < n and chance(draw, 0.5):
        case["malias"] = [i for i in range(k, n) if chance(draw, 0.6)]
    r = draw(st.integers(0, 9))
    if r < 2:
        case["cls"] = {"list": draw(st.permutations(list(range(n))))}
    elif r < 4:
        i = draw(st.integers(0, n - 1))
        case["cls"] = {"map": {str(i): {"v": draw(st.sampled_from(VALUES))}}}
    if k >= 2 and chance(draw, 0.3):
        case["split"] = draw(st.integers(1, k - 1))
    if case["split"] and chance(draw, 0.5):
        i = draw(st.integers(0, case["split"] - 1))
        case["cls_base"] = {"map": {str(i): {"v": draw(st.sampled_from(VALUES))}}}
        if chance(draw, 0.5):  # the subclass overrides the same field again
            case["cls"] = {"map": {str(i): {"v": draw(st.sampled_from(VALUES))}}}
    if not acyclic(effective_specs(case)):
        case["cls"] = None
        case.pop("cls_base", None)
    if chance(draw, 0.3):
        case["annotated"] = True
    return case


def strategy(tier):
    return strategy_(tier)


def names(case):
    return [f"f{i}" if i < case["k"] else f"m{i}" for i in range(case["n"])]


def spec_expr(spec, nm):
    if spec is None:
        return None
    if "v" in spec:
        return f"order({spec['v']})"
    if "after" in spec:
        return f"order(after={nm[spec['after']]!r})"
    return f"order(before={nm[spec['before']]!r})"


def render(case) -> str:
    nm = names(case)
    n, k, split = case["n"], case["k"], case.get("split")
    lines = []

    def field_line(i):
        e = spec_expr(case["specs"][i], nm)
        if e and case.get("annotated"):
            return f"    {nm[i]}: Annotated[int, {e}] = {i}"
        return f"    {nm[i]}: int = field(default={i}" + (f", metadata={e}" if e else "") + ")"

    def method_lines(i):
        e = spec_expr(case["specs"][i], nm)
        al = f"alias='z{nm[i]}', " if i in (case.get("malias") or []) else ""  # ordering refers to the NAME, output to the alias
        if case.get("resolver"):
            deco = f"@resolver({al}serialized=True, order={e})" if e else f"@resolver({al}serialized=True)"
        else:
            deco = f"@serialized({al}order={e})" if e else (f"@serialized({al[:-2]})" if al else "@serialized")
        return [f"    {deco}", f"    def {nm[i]}(self) -> int:", f"        return {i}"]

    cls = case.get("cls")
    deco = []
    if cls:
        if "list" in cls:
            deco.append("@order([" + ", ".join(repr(nm[i]) for i in cls["list"]) + "])")
        else:
            items = []
            for key, sp in cls["map"].items():
                e = spec_expr(sp, nm) if sp is not None else "order(0)"
                items.append(f"{nm[int(key)]!r}: {e}")
            deco.append("@order({" + ", ".join(items) + "})")
    if split:
        if case.get("cls_base"):
            items = [f"{nm[int(key)]!r}: {spec_expr(sp, nm) if sp is not None else 'order(0)'}" for key, sp in case["cls_base"]["map"].items()]
            lines.append("@order({" + ", ".join(items) + "})")
        lines += ["@dataclass", "class Base:"] + [field_line(i) for i in range(split)] + [""]
        lines += deco + ["@dataclass", "class C(Base):"] + [field_line(i) for i in range(split, k)]
        if split == k:
            lines.append("    pass")
    else:
        lines += deco + ["@dataclass", "class C:"] + [field_line(i) for i in range(k)]
    for i in range(k, n):
        lines += method_lines(i)
    lines += ["", "ROOT = C"]
    lines.insert(0, "from apischema.graphql import resolver")
    return "\n".join(lines) + "\n"


def describe(case):
    return render(case)


def effective_specs(case):
    specs = list(case["specs"])
    # overrides declared on the base class are inherited; the most derived class wins for a field both override (MRO)
    for key, sp in ((case.get("cls_base") or {}).get("map") or {}).items():
        specs[int(key)] = sp if sp is not None else {"v": 0}
    cls = case.get("cls")
    if cls:
        if "list" in cls:
            lst = cls["list"]
            for prev, cur in zip(lst, lst[1:]):
                specs[cur] = {"after": prev}
        else:
            for key, sp in cls["map"].items():
                specs[int(key)] = sp if sp is not None else {"v": 0}
    return specs


def check_sequence(seq, elements, specs):
    """None if `seq` (list of element indices) is a valid ordering of `elements` under `specs`."""
    if sorted(seq) != sorted(elements):
        lost = sorted(set(elements) - set(seq))
        dup = sorted({x for x in seq if seq.count(x) > 1})
        return "lost" if lost else ("duplicated" if dup else "invented"), f"elements {elements}, got {seq}"
    pos = {e: i for i, e in enumerate(seq)}

    def target(e):
        s = specs[e]
        if isinstance(s, dict):
            return s.get("after", s.get("before"))
        return None

    def root(e):
        seen = set()
        while target(e) is not None and target(e) in pos and e not in seen:
            seen.add(e)
            e = target(e)
        return e

    roots = [e for e in elements if target(e) is None or target(e) not in pos]
    key = lambda e: ((specs[e] or {}).get("v", 0) if target(e) is None else 0, e)
    rs = sorted(roots, key=key)
    if [e for e in seq if e in roots] != rs:
        return "roots_order", f"un-attached elements should be ordered {rs}, got {[e for e in seq if e in roots]}"
    for e in elements:
        t = target(e)
        if t is None or t not in pos:
            continue
        s = specs[e]
        lo, hi = (pos[t], pos[e]) if "after" in s else (pos[e], pos[t])
        if lo > hi:
            return "wrong_side", f"element {e} ({s}) is on the wrong side of {t} in {seq}"
    # contiguity of each cluster (an element with everything transitively attached to it)
    for x in elements:
        cluster = {e for e in elements if _attached_to(e, x, target, pos)}
        idx = sorted(pos[e] for e in cluster)
        if idx != list(range(idx[0], idx[0] + len(idx))):
            return "not_contiguous", f"cluster of {x} = {sorted(cluster)} is not contiguous in {seq}"
    return None


def _attached_to(e, x, target, pos) -> bool:
    seen = set()
    while e is not None and e not in seen:
        if e == x:
            return True
        seen.add(e)
        t = target(e)
        e = t if t in pos else None
    return False


def evaluate(case, ctx):
    ctx.count()
    src = render(case)
    prog = {"future": False, "post": [], "pre": []}
    try:
        b = build.load({"future": True, "enums": [], "newtypes": [], "classes": []}, source=build.PRELUDE + src)
    except Exception as e:
        raise HarnessError(f"ordering program does not build: {e!r}\n{src}")
    try:
        _evaluate(case, ctx, b, src)
    finally:
        b.close()


def _evaluate(case, ctx, b, src):
    nm = names(case)
    n, k = case["n"], case["k"]
    specs = effective_specs(case)
    C = b.module.C
    idx = {name: i for i, name in enumerate(nm)}
    idx.update({"z" + nm[i]: i for i in (case.get("malias") or [])})
    views = {}
    try:
        views["serialize"] = [idx[x] for x in serialize(C, C())]
        views["serialization_schema"] = [idx[x] for x in serialization_schema(C).get("properties", {})]
        views["deserialization_schema"] = [idx[x] for x in deserialization_schema(C).get("properties", {})]
    except Exception as e:
        ctx.violation({"kind": "crash", "exc": type(e).__name__}, case, f"{e!r}\n{src}")
        return
    try:
        both = definitions_schema(deserialization=[C], serialization=[C], all_refs=True)
        views["definitions_both_directions"] = [idx[x] for x in both["C"].get("properties", {})]
    except Exception as e:
        ctx.h("definitions_both_directions_unavailable:" + type(e).__name__)
    try:
        views["graphql"] = graphql_order(b, C, idx)
    except Exception as e:
        ctx.h("graphql_view_unavailable:" + type(e).__name__)
    all_elts = list(range(n))
    field_elts = list(range(k))
    absent_target = any(isinstance(s, dict) and s.get("after", s.get("before")) is not None and s.get("after", s.get("before")) >= k
                        for i, s in enumerate(specs) if i < k)
    gql_elts = all_elts if case.get("resolver") else field_elts
    for view, seq in views.items():
        elts = field_elts if view == "deserialization_schema" else gql_elts if view == "graphql" else all_elts
        bad = check_sequence(seq, elts, specs)
        if bad:
            sig = {"view": view, "kind": bad[0]}
            if view == "deserialization_schema" and absent_target:
                sig["target_is_method"] = True
            ctx.violation(sig, case, f"{bad[1]}\nnames {nm}\n{src}")
    if "serialize" in views:
        for view in ("serialization_schema", "graphql", "definitions_both_directions"):
            restricted = [e for e in views["serialize"] if view != "graphql" or e in gql_elts]
            if view in views and views[view] != restricted and (view != "graphql" or case.get("resolver") or
                                                                check_sequence(views[view], gql_elts, specs)):
                ctx.violation({"kind": "views_disagree", "view": view}, case,
                              f"serialize {views['serialize']} vs {view} {views[view]}\n{src}")
        if [e for e in views["serialize"] if e < k] != views["deserialization_schema"] and not check_sequence(views["deserialization_schema"], field_elts, specs):
            ctx.h("deserialization_view_is_another_valid_order")
    has_attach = any(isinstance(s, dict) and ("after" in s or "before" in s) for s in case["specs"])
    vals = {(s or {}).get("v", 0) for s in specs if not (isinstance(s, dict) and ("after" in s or "before" in s))}
    if (has_attach and len(vals) >= 2) or case.get("cls"):
        ctx.nontriv(case)
        ctx.sample({"program": src, "order": [nm[i] for i in views["serialize"]]})


def graphql_order(b, C, idx):
    from apischema.graphql import graphql_schema

    def get_c() -> C:
        return C()

    get_c.__annotations__ = {"return": C}
    schema = graphql_schema(query=[get_c])
    tp = schema.type_map["C"]
    return [idx[name] for name in tp.fields]
