"""C14 — coercion only widens acceptance, per the documented table."""
from __future__ import annotations

import copy

import json

from hypothesis import strategies as st

import apischema
from apischema import ValidationError, deserialize

from vlib import build, gen
from vlib import model as M
from vlib import tdcase
from vlib.gen import chance, pick
from vlib.runner import HarnessError

ID = "C14"
TITLE = "Coercion only widens acceptance, per the documented table"
RULE = ("Hypothesis draws a type program, options and 5-10 data: valid data whose primitive leaves are replaced by coercion bait "
        "(numeric strings '1' ' 1' '1.0' '1e3' '0x1', boolean words in all casings and near-misses, '', whitespace, ints for bools, "
        "numbers for strings), mutants and atoms.  Each datum is deserialized strictly, with coerce=True, with "
        "settings.deserialization.coerce=True and with a custom coercer returning wrong-typed objects.  Oracle: strict-accept => "
        "coerce-accept (canon-equal result when no union is involved); strict-reject and coerce-accept => the reference model run "
        "with the documented table only also accepts, with an equal result; coerce=True and the global setting agree; a value returned "
        "under the wrong-typed coercer never contains the coercer's marker object; the coerced outcome of each datum is the same when the data of "
        "the case are run in order and, after a cache reset, in reverse order (no dependence on history).  Non-trivial: the datum contains >= 1 primitive whose "
        "JSON class differs from the class the type expects there (strict rejects).  Distinct = hash(type shape, datum shape, verdicts).")
ASSUMPTIONS = ["the documented table: int()/float() from strings and numbers, str() from numbers, 14 boolean words case-insensitively, int->bool, ''->None",
               "float->int truncation, bool->number and coercion towards Literal/Enum values are UNSPECIFIED (skipped)"]
BUDGET = {"quick": 700, "thorough": 12000}
SHARDS = {"quick": 8, "thorough": 16}
MIN_NONTRIVIAL = {"quick": 800, "thorough": 20000}
TECHNIQUE = "property-based testing (Hypothesis): metamorphic strict-vs-coerce relation + reference model of the documented coercion table"
LEVEL_TEXT = ("Exploration: ~40k (quick) / ~1M (thorough) (type, datum) cases, each run in four modes (strict, coerce=True, global setting, "
              "wrong-typed custom coercer) and related to each other and to the model of the documented table.")
LEVEL_NOTE = "Trusted: reference model's coercion table (vlib/model.py), restoration of settings.deserialization.coerce after each case."

BAIT = ["1", " 1", "1.0", "1e3", "0x1", "-2", "3", "0", "true", "True", "TRUE", "yes", "Y", "off", "Ko", "ok", "maybe", "2", "tru",
        "", " ", "null", "None", "1.5", "abc", "nan", "13", "13.0", 13]


class Marker:
    def __repr__(self):
        return "<Marker>"


def wrong_coercer(cls, data):
    if isinstance(data, cls):
        return data
    return Marker()


def _bait(draw, d):
    ps = [p for p in gen.paths(d) if not isinstance(gen.get_at(d, p), (list, dict))]
    if not ps:
        return pick(draw, BAIT)
    for _ in range(draw(st.integers(1, 3))):
        p = pick(draw, ps)
        cur = gen.get_at(d, p)
        r = draw(st.integers(0, 9))
        if isinstance(cur, bool):
            new = pick(draw, ["true", "False", "YES", "n", 1, 0, 2, "maybe", "1"])
        elif isinstance(cur, (int, float)) and r < 7:
            new = pick(draw, [str(cur), " " + str(cur), str(cur) + ".0", str(cur) + "x", "1e1"])
        elif isinstance(cur, str) and r < 6:
            new = pick(draw, [0, 1, -3, 1.5, 10])
        elif cur is None and r < 7:
            new = pick(draw, ["", " ", "null", 0])
        else:
            new = pick(draw, BAIT)
        d = gen.set_at(d, p, new)
    return d


def data_fn(draw, prog, t, opts):
    r = draw(st.integers(0, 99))
    dyn = opts["aliaser"]
    if '"val"' in json.dumps(prog) and r < 25:
        # leaf validators: the refused value itself (right-typed: strict mode rejects it because of the validator only),
        # or a string coercible to it
        gen._BOUNDARY[0] = True
        try:
            d = gen.valid(draw, prog, t, dyn)
        finally:
            gen._BOUNDARY[0] = False
        return d, "validator_boundary"
    if r < 60:
        return _bait(draw, gen.valid(draw, prog, t, dyn)), "bait"
    if r < 72:
        return gen.valid(draw, prog, t, dyn), "valid"
    if r < 88:
        d, _, _ = gen.mutants(draw, gen.valid(draw, prog, t, dyn), 1)
        return d, "mutant"
    return pick(draw, gen.ATOMS + BAIT), "atom"


def strategy(tier):
    cfg = {"max_depth": 3 if tier == "quick" else 4, "generics": True, "leaf_validators": True}
    return tdcase.td_cases(cfg, n_data=(5, 10), data_fn=data_fn)


def enumerate_cases(tier):
    """Literals and enums whose values have several classes (each class is tried in turn, every attempt from the datum
    received), alone / in a list / Optional, against every bait word and atom."""
    enums = [{"name": "EMix0", "base": "plain", "members": [["M0", False], ["M1", 1]]},
             {"name": "EMix1", "base": "plain", "members": [["M0", True], ["M1", 5]]},
             {"name": "EMix2", "base": "plain", "members": [["M0", 0], ["M1", "2"]]}]
    roots = [{"k": "lit", "values": v} for v in ([False, 1], [True, 0], [True, 5], [0, "2"], [1, "2", False], ["1", 2], [False, "a", 2], [1.5, "1"], [True, "0"])]
    roots += [{"k": "enum", "i": i} for i in range(len(enums))]
    data = []
    for x in BAIT + ["on", "no", "n", "y", "NO", "On", "false", "0.0", "2.7", "5", "2", 2.7, 2.0, 1.5, 0.0, 5, 2, 1, 0, -1, True, False, None, "a"]:
        if not any(x == y and type(x) is type(y) for y in data):
            data.append(x)
    for root in roots:
        for wrap in ("bare", "list", "opt"):
            t = root if wrap == "bare" else {"k": "list", "sp": "List", "of": root} if wrap == "list" else {"k": "opt", "of": root}
            prog = {"future": False, "enums": [dict(e) for e in enums], "newtypes": [], "classes": [], "order": [], "root": t}
            yield {"prog": prog, "opts": {"additional_properties": False, "fall_back_on_default": False, "aliaser": "id", "coerce": False},
                   "data": [{"d": ([x] if wrap == "list" else x), "tag": "enumerated"} for x in data]}


describe = tdcase.describe


def run(tp, d, kw):
    try:
        return "ok", deserialize(tp, copy.deepcopy(d), **kw)
    except ValidationError as e:
        return "err", e
    except Exception as e:
        return "crash", e


def has_union(prog, t, seen=None) -> bool:
    seen = seen if seen is not None else set()
    k = t["k"]
    if k in ("opt", "union"):
        return True
    if k == "cls":
        if any(has_union(prog, x, seen) for x in t.get("args", [])):
            return True
        if t["i"] in seen:
            return False
        seen.add(t["i"])
        return any(has_union(prog, f["t"], seen) for f in prog["classes"][t["i"]]["fields"])
    if k == "newtype":
        return has_union(prog, prog["newtypes"][t["i"]]["of"], seen)
    return any(has_union(prog, t[key], seen) for key in ("of", "key", "val") if isinstance(t.get(key), dict)) or \
        any(has_union(prog, x, seen) for key in ("alts", "items", "args") for x in t.get(key, []))


def contains_marker(v, depth=0) -> bool:
    import dataclasses
    if isinstance(v, Marker):
        return True
    if depth > 30:
        return False
    if isinstance(v, dict):
        return any(contains_marker(k, depth + 1) or contains_marker(x, depth + 1) for k, x in v.items())
    if isinstance(v, (list, tuple, set, frozenset)):
        return any(contains_marker(x, depth + 1) for x in v)
    if dataclasses.is_dataclass(v) and not isinstance(v, type):
        return any(contains_marker(getattr(v, f.name, None), depth + 1) for f in dataclasses.fields(v))
    return False


def evaluate(case, ctx):
    prog, opts = case["prog"], case["opts"]
    try:
        b = build.load(prog)
    except Exception as e:
        raise HarnessError(f"generated program does not build: {e!r}\n{build.render(prog)}")
    try:
        _evaluate(case, ctx, b, prog, opts)
    finally:
        apischema.settings.deserialization.coerce = False
        b.close()


def _evaluate(case, ctx, b, prog, opts):
    opts = dict(opts, coerce=False)
    kw = tdcase.api_kwargs(opts)
    tp = b.root
    # fall_back_on_default turns a strict rejection of a field into "use the default": like a union,
    # it makes the strict result legitimately differ from the coerced one
    union = has_union(prog, prog["root"]) or bool(opts.get("fall_back_on_default")) or any(
        f.get("fall_back") for cd in prog["classes"] for f in cd["fields"])
    cmodel = M.Model(prog, M.Opts(**dict(opts, coerce=True)))
    node = tdcase.node_sig(prog, prog["root"])
    for item in case["data"]:
        d, tag = item["d"], item.get("tag", "?")
        ctx.count()
        single = {"prog": prog, "opts": opts, "data": [item]}
        s_got, s_res = run(tp, d, kw)
        c_got, c_res = run(tp, d, dict(kw, coerce=True))
        apischema.settings.deserialization.coerce = True
        try:
            g_got, g_res = run(tp, d, kw)
        finally:
            apischema.settings.deserialization.coerce = False
        w_got, w_res = run(tp, d, dict(kw, coerce=wrong_coercer))
        if "crash" in (s_got, c_got, g_got, w_got):
            ctx.h("crash_routed_to_C03")
            continue
        ctx.h(f"strict:{s_got}/coerce:{c_got}")
        if s_got == "ok" and c_got == "err":
            ctx.violation({"rel": "narrowed", "root": node}, single,
                          f"strict accepts {tdcase.compact(d, 200)} -> {s_res!r}; coerce=True rejects: {c_res.errors!r}"[:900])
        elif s_got == "ok" and c_got == "ok" and not union and not M.canon_eq(M.canon(s_res), M.canon(c_res)):
            ctx.violation({"rel": "changed_result", "root": node}, single, f"strict {s_res!r} != coerce {c_res!r}"[:900])
        if g_got != c_got or (c_got == "ok" and not M.canon_eq(M.canon(g_res), M.canon(c_res))):
            ctx.violation({"rel": "global_setting_differs"}, single,
                          f"coerce=True: {c_got} {c_res!r}; settings.deserialization.coerce=True: {g_got} {g_res!r}"[:900])
        if s_got == "err" and c_got == "ok":
            try:
                verdict, val = cmodel.deserialize(prog["root"], d)
            except M.Unspecified:
                ctx.h("unspecified")
                verdict = None
            if verdict == "err":
                lt, ld = _localize(b, cmodel, prog, d, dict(kw, coerce=True), opts)
                ctx.violation({"rel": "outside_table", "node": tdcase.node_sig(prog, lt), "datum": tdcase.json_class(ld)}, single,
                              f"strict rejects, coerce=True returns {c_res!r}, the documented table does not allow it; "
                              f"localised at {build.texpr(lt, prog)} <- {tdcase.compact(ld, 100)}"[:900])
            elif verdict == "ok" and not M.canon_eq(M.canon(c_res), val):
                ctx.violation({"rel": "coerced_value_differs", "root": node}, single,
                              f"table gives {tdcase.compact(val, 300)}, coerce=True gives {tdcase.compact(M.canon(c_res), 300)}")
        if w_got == "ok" and contains_marker(w_res):
            ctx.violation({"rel": "custom_coercer_result_unchecked", "root": node}, single,
                          f"wrong-typed coercer result kept: {w_res!r}"[:600])
        if s_got == "err":
            ctx.nontriv([tdcase.shape(prog["root"], prog), tdcase.dshape(d), s_got, c_got, w_got])
            ctx.sample({"type": b.source.split("ROOT = ")[-1].strip(), "datum": d, "strict": s_got, "coerce": c_got,
                        "coerced_value": repr(c_res)[:120] if c_got == "ok" else None, "wrong_typed_coercer": w_got})
    _history_independence(case, ctx, b, prog, kw)


def _history_independence(case, ctx, b, prog, kw):
    """The coerced outcome of a datum does not depend on what was deserialized before: the data of the case are run
    in order without any configuration change in between, then - after a cache reset - in reverse order."""
    tp = b.root
    ckw = dict(kw, coerce=True)

    def outcome(d):
        got, res = run(tp, d, ckw)
        return (got, M.canon(res) if got == "ok" else (sorted(map(repr, res.errors)) if got == "err" else None))

    data = [item["d"] for item in case["data"]]
    apischema.cache.reset()
    forward = [outcome(d) for d in data]
    apischema.cache.reset()
    backward = [outcome(d) for d in reversed(data)][::-1]
    for i, (f_, b_) in enumerate(zip(forward, backward)):
        if "crash" in (f_[0], b_[0]):
            continue
        if f_[0] != b_[0] or (f_[0] == "ok" and not M.canon_eq(f_[1], b_[1])) or (f_[0] == "err" and f_[1] != b_[1]):
            ctx.violation({"rel": "coercion_depends_on_history", "outcomes": [f_[0], b_[0]]}, {"prog": prog, "opts": case["opts"], "data": case["data"]},
                          f"datum #{i} {tdcase.compact(data[i], 150)} under coerce=True: {f_} when the data {tdcase.compact(data, 300)} are run in order, "
                          f"{b_} when they are run in reverse order")
            return
    ctx.h("history_independence_checked")


def _localize(b, cmodel, prog, d, kw, opts):
    t, cur, c = prog["root"], d, None
    for _ in range(10):
        nxt = None
        for (ct, cd_, cc) in tdcase.children(prog, t, cur, opts.get("aliaser", "id"), c):
            try:
                v, _ = cmodel.deserialize(ct, cd_, cc)
            except M.Unspecified:
                continue
            got, _r = run(b.typeof(tdcase.wrap_c(ct, cc)), cd_, kw)
            if v == "err" and got == "ok":
                nxt = (ct, cd_, cc)
                break
        if nxt is None:
            break
        t, cur, c = nxt
    return tdcase.wrap_c(t, c), cur
