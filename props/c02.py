"""C02 — rejections report every violation once, at its location in the input."""
from __future__ import annotations

import ast
import copy
import re

from hypothesis import strategies as st

from apischema import ValidationError, deserialize

from vlib import build, gen
from vlib import model as M
from vlib import tdcase
from vlib.runner import HarnessError

ID = "C02"
TITLE = "Rejections report every violation once, at its location in the input"
RULE = ("In 30% of the cases every message of settings.errors is replaced by a custom text (the model uses the same texts).  Hypothesis draws a type program, options and 4-10 data per type, 60% of them valid data with 2-5 mutations planted "
        "at pairwise non-nested paths (sibling branches), the rest single mutants, atoms, random JSON.  Oracle: (a) when the "
        "reference model's complete error tree is fully specified (no union rejection, no wrong-length tuple, ...) "
        "err.errors must equal the model's list [(loc, message)] exactly, order included; (b) always: every loc is a real "
        "path of the input (the last key may be absent only for a 'missing property' entry), no entry is duplicated, "
        "(c) the list equals its own canonical tree order (own messages first, then children, indices before names, ascending) "
        "and a second call returns the identical list.  Non-trivial: the rejection carries >= 2 entries at >= 2 distinct "
        "locations.  Distinct = hash(type shape, datum shape, sorted locs).")
ASSUMPTIONS = [
    "message texts are the defaults of settings.errors and the documented bad_type template",
    "the content of a union rejection, of a wrong-length fixed tuple and of a mapping item whose key and value are both invalid is UNSPECIFIED (only clauses b and c are checked there)",
]
BUDGET = {"quick": 1600, "thorough": 16000}
SHARDS = {"quick": 8, "thorough": 16}
MIN_NONTRIVIAL = {"quick": 1200, "thorough": 15000}
TECHNIQUE = "property-based testing (Hypothesis): data with k>=2 planted sibling violations vs the reference model's complete error list + loc/order invariants"
LEVEL_TEXT = ("Exploration: ~50k (quick) / ~1.5M (thorough) cases; exact comparison of the reported error list with an independent model "
              "wherever the documentation fixes it, structural invariants (real paths, no duplicates, deterministic canonical order) everywhere.")
LEVEL_NOTE = "Trusted: the reference model's error trees and message templates (vlib/model.py); custom settings.errors are not varied here."


@st.composite
def _with_custom_errors(draw, cases):
    case = draw(cases)
    case["opts"]["custom_errors"] = gen.chance(draw, 0.3)
    return case


def strategy(tier):
    return _with_custom_errors(_strategy(tier))


def _strategy(tier):
    cfg = {"max_depth": 3 if tier == "quick" else 4, "generics": True, "root_schema": True, "leaf_validators": True, "class_validators": True}
    return tdcase.td_cases(cfg, n_data=(4, 10), mix=(5, 20, 60, 15))


describe = tdcase.describe


def canonical(errors):
    """Re-derive the documented order from the set of entries: own messages first (kept in
    reported order), then children in ascending key order, recursively."""
    def rec(entries):
        own = [(loc, msg) for loc, msg in entries if not loc]
        groups = {}
        for loc, msg in entries:
            if loc:
                groups.setdefault(loc[0], []).append((loc[1:], msg))
        out = [((), m) for _, m in own]
        for k in sorted(groups, key=lambda k: (0, k) if isinstance(k, int) and not isinstance(k, bool) else (1, str(k))):
            out += [((k,) + l, m) for l, m in rec(groups[k])]
        return out
    return rec([(tuple(e["loc"]), e["err"]) for e in errors])


_ONE_OF = re.compile(r"^not one of \[(.*)\] \(oneOf\)$")


def norm_msg(msg: str) -> str:
    """Literal[...] arguments are a set for `typing` (Literal[1, 2] == Literal[2, 1], and equal
    types share cached methods), so the order inside a oneOf message is not specified."""
    m = _ONE_OF.match(msg)
    if not m:
        return msg
    try:
        items = sorted(repr(x) for x in ast.literal_eval("[" + m.group(1) + "]"))
    except Exception:
        return msg
    return "not one of {" + ", ".join(items) + "} (oneOf)"


def real_path(d, loc, msg) -> bool:
    cur = d
    for i, k in enumerate(loc):
        last = i == len(loc) - 1
        if isinstance(cur, list):
            if not (isinstance(k, int) and not isinstance(k, bool) and 0 <= k < len(cur)):
                return False
            cur = cur[k]
        elif isinstance(cur, dict):
            if k not in cur:
                return last and msg.startswith(M.TEXT["missing"])
            cur = cur[k]
        else:
            return False
    return True


def evaluate(case, ctx):
    prog, opts = case["prog"], case["opts"]
    try:
        b = build.load(prog)
    except Exception as e:
        raise HarnessError(f"generated program does not build: {e!r}\n{build.render(prog)}")
    try:
        if opts.get("custom_errors"):  # custom settings.errors messages, shared by the library and the model
            with M.custom_errors():
                ctx.h("custom_settings_errors")
                _evaluate(case, ctx, b, prog, opts)
        else:
            _evaluate(case, ctx, b, prog, opts)
    finally:
        b.close()


def _evaluate(case, ctx, b, prog, opts):
    kw = tdcase.api_kwargs(opts)
    model = M.Model(prog, M.Opts(**opts))
    tp = b.root
    for item in case["data"]:
        d, tag = item["d"], item.get("tag", "?")
        ctx.count()
        single = {"prog": prog, "opts": opts, "data": [item]}
        try:
            deserialize(tp, copy.deepcopy(d), **kw)
            ctx.h("accepted")
            continue
        except ValidationError as err:
            try:
                errors = err.errors
                deserialize(tp, copy.deepcopy(d), **kw)
                errors2 = None
            except ValidationError as err2:
                errors2 = err2.errors
            except Exception:
                ctx.h("crash_routed_to_C03")
                continue
        except Exception:
            ctx.h("crash_routed_to_C03")
            continue
        ctx.h("rejected")
        node = tdcase.node_sig(prog, prog["root"])
        # (c) determinism and canonical order
        if errors2 != errors:
            ctx.violation({"clause": "nondeterministic"}, single, f"{errors!r}\n!=\n{errors2!r}"[:800])
        flat = [(tuple(e["loc"]), norm_msg(e["err"])) for e in errors]
        if [(tuple(e["loc"]), e["err"]) for e in errors] != canonical(errors):
            ctx.violation({"clause": "order", "root": node}, single, f"reported {flat!r}\ncanonical {canonical(errors)!r}"[:900])
        # (b) real paths, no duplicates
        for loc, msg in flat:
            if not real_path(d, loc, msg):
                ctx.violation({"clause": "loc_not_in_input", "msg": msg.split(" ")[0]}, single,
                              f"entry {list(loc)!r}: {msg!r} does not index into {tdcase.compact(d, 300)}")
                break
        if len(set(flat)) != len(flat):
            dup = next(x for x in flat if flat.count(x) > 1)
            # the same message twice at one location is only a duplicate when a single rule produced it;
            # union alternatives legitimately repeat "expected type X" -> restrict to specified trees below
            ctx.h("duplicate_entries_seen")
        # (a) exact list against the model
        try:
            verdict, val = model.deserialize(prog["root"], d, opts.get("root_schema"))
        except M.Unspecified:
            ctx.h("unspecified")
            verdict = None
        if verdict == "err":
            expected = [(l, norm_msg(m)) for l, m in val.flat()]
            if val.is_fuzzy():
                ctx.h("model:fuzzy")
                # every fully specified sub-entry must still be present (nothing hidden by a sibling)
                missing = [e for e in ((l, norm_msg(m)) for l, m in _certain(val)) if e not in flat]
                if missing:
                    ctx.violation({"clause": "missing_entry", "msg": missing[0][1].split(" ")[0], "fuzzy": True}, single,
                                  f"model expects {missing[0]!r} among {flat!r}"[:900])
            else:
                ctx.h("model:exact")
                if flat != expected:
                    miss = [e for e in expected if e not in flat]
                    extra = [e for e in flat if e not in expected]
                    if miss:
                        sig = {"clause": "missing_entry", "msg": miss[0][1].split(" (")[-1][:20], "fuzzy": False}
                    elif extra:
                        sig = {"clause": "extra_entry", "msg": extra[0][1].split(" (")[-1][:20]}
                    elif len(flat) != len(expected):
                        sig = {"clause": "duplicate_entry"}
                    else:
                        sig = {"clause": "order_vs_model"}
                    ctx.violation(sig, single, f"expected {expected!r}\nreported {flat!r}"[:1200])
        locs = sorted({repr(l) for l, _ in flat})
        if len(flat) >= 2 and len(locs) >= 2:
            ctx.nontriv([tdcase.shape(prog["root"], prog), tdcase.dshape(d), locs])
            ctx.sample({"type": b.source.split("ROOT = ")[-1].strip(), "options": opts, "datum": d, "errors": errors[:6]})
            ctx.h(f"entries:{min(len(flat), 6)}")


def _certain(err: M.Err, prefix=()):
    """Entries of the specified (non-fuzzy) parts of a partially specified tree."""
    out = [(tuple(prefix), m) for m in err.msgs]  # messages carried by a fuzzy node are the certain part
    for k, c in err.children.items():
        out += _certain(c, tuple(prefix) + (k,))
    return out
