"""C11 — a field has one external name across every view."""
from __future__ import annotations

import re

from hypothesis import strategies as st

import apischema
from apischema import ValidationError, deserialize, serialize
from apischema.json_schema import deserialization_schema, serialization_schema

from vlib import build
from vlib.gen import chance, pick
from vlib.runner import HarnessError

ID = "C11"
TITLE = "A field has one external name across every view"
RULE = ("Hypothesis draws a naming program: a dataclass / NamedTuple / TypedDict with 2-4 int fields whose names come from a pool "
        "(snake_case, camelCase, digits) with optional alias metadata (incl. '$'-prefixed and dashed), alias(override=False), a class "
        "aliaser (upper / prefix), dependent_required between two defaulted fields, a validator yielding a get_alias(...) path, "
        "optionally nested as a field or flattened into a parent; and a dynamic aliaser (identity, camelCase, prefix, upper) given either as "
        "the aliaser= argument, through settings.aliaser, or settings.camel_case.  Oracle: expected external name = "
        "dyn(class_aliaser(alias or name)) (class aliaser skipped under override=False, dynamic one always applied), checked in "
        "every view: deserialize accepts data keyed by expected names and answers any other candidate spelling (raw name, alias, "
        "class-aliased, dyn-aliased) with 'missing property' at the expected name + 'unexpected property' at the given one; keys of "
        "serialize; properties / required / dependentRequired of both schemas; loc of a type error, of the validator's get_alias path, of two failing field validators and of a "
        "dependent_required violation; "
        "GraphQL object and input field names and a resolver argument name under graphql_schema(aliaser=dyn).  Non-trivial: >= 1 field whose "
        "candidate spellings (name, alias, class-aliased, dyn-aliased, both) are pairwise distinct.  Distinct = hash(program).")
ASSUMPTIONS = ["json_schema.md: 'Dynamic aliaser ignores override=False'", "GraphQL view only when every expected name is a valid GraphQL name"]
BUDGET = {"quick": 1500, "thorough": 10000}
SHARDS = {"quick": 8, "thorough": 16}
MIN_NONTRIVIAL = {"quick": 500, "thorough": 5000}
TECHNIQUE = "property-based testing (Hypothesis): generated naming programs; one formula for the external name compared across six observable views"
LEVEL_TEXT = ("Exploration: ~4k (quick) / ~130k (thorough) naming programs; the documented external-name formula is compared with deserialize, "
              "serialize, both JSON schemas (properties, required, dependentRequired), validation error locations and GraphQL field/argument names.")
LEVEL_NOTE = "Trusted: the one-line formula; settings.aliaser / camel_case restored in a finally block."

FIELD_NAMES = ["some_id", "value", "a_b_c", "camelName", "x1", "is_ok", "n_2d", "snake_case_name"]
ALIASES = [None, "ali", "my_alias", "$ref", "al-1", "Alias_X", "id", "the_key", "key_2"]
GQL_NAME = re.compile(r"^[_A-Za-z][_0-9A-Za-z]*$")


@st.composite
def strategy_(draw, tier):
    n = draw(st.integers(2, 4))
    names = draw(st.lists(st.sampled_from(FIELD_NAMES), min_size=n, max_size=n, unique=True))
    aliases = draw(st.lists(st.sampled_from(ALIASES), min_size=n, max_size=n))
    fields = []
    used = set()
    for nm, al in zip(names, aliases):
        if al in used:
            al = None
        if al:
            used.add(al)
        fields.append({"n": nm, "alias": al, "no_override": chance(draw, 0.25), "default": chance(draw, 0.5)})
    flavor = pick(draw, ["dataclass", "dataclass", "dataclass", "namedtuple", "typeddict"])
    prog = {
        "fields": fields, "flavor": flavor,
        "cls_aliaser": pick(draw, [None, "upper", "pfx", "sfx"]) if flavor == "dataclass" else None,
        "dyn": pick(draw, ["id", "camel", "camel", "pfx", "upper", "pfx"]),
        "via": pick(draw, ["param", "param", "settings", "camel_case"]),
        "wrap": pick(draw, [None, None, "nested", "flatten"]) if flavor == "dataclass" else pick(draw, [None, "nested"]),
        "dep_req": False, "validator": flavor == "dataclass" and chance(draw, 0.5),
    }
    prog["field_validators"] = flavor == "dataclass" and len(fields) >= 2 and chance(draw, 0.4)
    if prog["via"] == "camel_case":
        prog["dyn"] = "camel"
    defaulted = [f["n"] for f in fields if f["default"]]
    if flavor == "dataclass" and len(defaulted) >= 2 and chance(draw, 0.4):
        prog["dep_req"] = [defaulted[0], defaulted[1]]
    return prog


def strategy(tier):
    return strategy_(tier)


def render(p) -> str:
    fields = p["fields"]
    lines = ["from apischema.objects import get_alias", ""]

    def md(f):
        out = []
        if f["alias"] is not None:
            out.append(f"alias({f['alias']!r}" + (", override=False" if f["no_override"] else "") + ")")
        elif f["no_override"]:
            out.append("alias(override=False)")
        return out

    order = sorted(fields, key=lambda f: 1 if f["default"] else 0) if p["flavor"] != "typeddict" else fields
    if p["flavor"] == "dataclass":
        if p["cls_aliaser"]:
            lines.append(f"@alias({p['cls_aliaser']})")
        lines += ["@dataclass", "class C:"]
        for f in order:
            args = (["default=0"] if f["default"] else []) + (["metadata=" + " | ".join(md(f))] if md(f) else [])
            lines.append(f"    {f['n']}: int" + (f" = field({', '.join(args)})" if args else ""))
        if p["dep_req"]:
            lines.append(f"    _dep = dependent_required({{{p['dep_req'][0]!r}: [{p['dep_req'][1]!r}]}})")
        if p["validator"]:
            first = order[0]["n"]
            lines += ["    @validator", "    def check(self):", f"        if self.{first} == 13:", f"            yield get_alias(self).{first}, 'thirteen'"]
        if p.get("field_validators"):
            # two field validators (each discards its field): both fail on 14, both errors sit under the field's external name
            for f in order[:2]:
                lines += [f"    @validator({f['n']!r})", f"    def check_{f['n']}(self):", f"        if self.{f['n']} == 14:", "            raise ValidationError('fourteen')"]
    elif p["flavor"] == "namedtuple":
        lines.append("class C(NamedTuple):")
        for f in order:
            te = "int" if not md(f) else f"Annotated[int, {', '.join(md(f))}]"
            lines.append(f"    {f['n']}: {te}" + (" = 0" if f["default"] else ""))
    else:
        lines.append("class C(TypedDict):")
        for f in fields:
            te = "int" if not md(f) else f"Annotated[int, {', '.join(md(f))}]"
            lines.append(f"    {f['n']}: {te}")
    if p["wrap"] == "nested":
        lines += ["", "@dataclass", "class P:", "    inner: C", "    other: int = 0"]
    elif p["wrap"] == "flatten":
        lines += ["", "@dataclass", "class P:", "    inner: C = field(metadata=flatten)", "    other_top: int = 0"]
    lines += ["", "ROOT = " + ("P" if p["wrap"] else "C")]
    return "\n".join(lines) + "\n"


def describe(case):
    return render(case)


def expected_name(p, f) -> str:
    name = f["alias"] if f["alias"] is not None else f["n"]
    if p["cls_aliaser"] and not f["no_override"]:
        name = build.ALIASERS[p["cls_aliaser"]](name)
    return build.ALIASERS[p["dyn"]](name)


def candidates(p, f):
    base = f["alias"] if f["alias"] is not None else f["n"]
    ca = build.ALIASERS[p["cls_aliaser"]] if p["cls_aliaser"] else (lambda s: s)
    dy = build.ALIASERS[p["dyn"]]
    return {"name": f["n"], "alias": base, "class": ca(base), "dyn": dy(base), "both": dy(ca(base)), "dyn_name": dy(f["n"])}


def evaluate(case, ctx):
    p = case
    ctx.count()
    src = render(p)
    try:
        b = build.load({"future": True, "enums": [], "newtypes": [], "classes": []}, source=build.PRELUDE + src)
    except Exception as e:
        raise HarnessError(f"naming program does not build: {e!r}\n{src}")
    old = apischema.settings.aliaser
    try:
        _evaluate(p, ctx, b, src)
    finally:
        apischema.settings.aliaser = old
        b.close()


def _evaluate(p, ctx, b, src):
    fields = p["fields"]
    dyn = build.ALIASERS[p["dyn"]]
    kw = {}
    if p["via"] == "param":
        kw["aliaser"] = dyn
    elif p["via"] == "settings":
        apischema.settings.aliaser = dyn
    else:
        apischema.settings.camel_case = True
    tp = b.root
    C = b.module.C
    exp = {f["n"]: expected_name(p, f) for f in fields}
    if len(set(exp.values())) != len(exp):
        ctx.h("discarded:colliding_names")
        return
    wrap = p["wrap"]
    inner_key = dyn("inner")

    def outer(d):
        if wrap == "nested":
            return {inner_key: d}
        return d

    def inner_loc(loc):
        return ([inner_key] if wrap == "nested" else []) + loc

    def viol(view, detail, **extra):
        ctx.violation({"view": view, "via": p["via"], "flavor": p["flavor"], **extra}, p, f"{detail}\nexpected names {exp}\n{src}")

    good = {exp[f["n"]]: 1 for f in fields}
    # 1. deserialization consumes the expected keys
    try:
        deserialize(tp, outer(dict(good)), **kw)
    except ValidationError as e:
        viol("deserialize", f"data keyed by expected names rejected: {e.errors}")
        return
    except Exception as e:
        viol("deserialize", f"crash {e!r}", exc=type(e).__name__)
        return
    # ... and nothing else
    for f in fields:
        for kind, cand in candidates(p, f).items():
            if cand == exp[f["n"]] or cand in exp.values() or cand in ("inner", inner_key, "other", "other_top", dyn("other"), dyn("other_top")):
                continue
            d = dict(good)
            d.pop(exp[f["n"]])
            d[cand] = 1
            try:
                deserialize(tp, outer(d), **kw)
                if not f["default"] or p["flavor"] == "typeddict":
                    viol("deserialize", f"key {cand!r} ({kind} spelling) accepted instead of {exp[f['n']]!r}", spelling=kind)
                else:
                    viol("deserialize", f"unknown key {cand!r} ({kind} spelling) accepted", spelling=kind)
            except ValidationError as e:
                locs = {tuple(x["loc"]): x["err"] for x in e.errors}
                want_unexpected = tuple(inner_loc([cand]))
                want_missing = tuple(inner_loc([exp[f["n"]]]))
                if p["flavor"] == "typeddict":
                    ok = locs.get(want_missing) == "missing property"
                else:
                    ok = locs.get(want_unexpected) == "unexpected property" and (f["default"] or locs.get(want_missing) == "missing property")
                if not ok:
                    viol("error_loc", f"given {cand!r} for {exp[f['n']]!r}: errors {e.errors}", spelling=kind)
            except Exception as e:
                viol("deserialize", f"crash {e!r}", exc=type(e).__name__)
    # 4. loc of a type error
    bad = dict(good)
    first = fields[0]
    bad[exp[first["n"]]] = "x"
    try:
        deserialize(tp, outer(bad), **kw)
        viol("error_loc", "ill-typed value accepted")
    except ValidationError as e:
        if [x["loc"] for x in e.errors] != [inner_loc([exp[first["n"]]])]:
            viol("error_loc", f"type error located at {[x['loc'] for x in e.errors]}")
    except Exception as e:
        viol("error_loc", f"crash {e!r}", exc=type(e).__name__)
    if p["validator"]:
        order = sorted(fields, key=lambda f: 1 if f["default"] else 0)
        vf = order[0]
        d13 = dict(good)
        d13[exp[vf["n"]]] = 13
        try:
            deserialize(tp, outer(d13), **kw)
            viol("validator_loc", "validator did not fail")
        except ValidationError as e:
            if [x["loc"] for x in e.errors] != [inner_loc([exp[vf["n"]]])]:
                viol("validator_loc", f"get_alias path reported at {[x['loc'] for x in e.errors]}")
        except Exception as e:
            viol("validator_loc", f"crash {e!r}", exc=type(e).__name__)
    if p.get("field_validators"):
        order = sorted(fields, key=lambda f: 1 if f["default"] else 0)
        d14 = dict(good)
        for f in order[:2]:
            d14[exp[f["n"]]] = 14
        try:
            deserialize(tp, outer(d14), **kw)
            viol("validator_loc", "field validators did not fail")
        except ValidationError as e:
            want = sorted(inner_loc([exp[f["n"]]]) for f in order[:2])
            if sorted(x["loc"] for x in e.errors) != want:
                viol("validator_loc", f"two failing field validators reported at {[x['loc'] for x in e.errors]}, expected {want}", form="two_field_validators")
        except Exception as e:
            viol("validator_loc", f"crash {e!r}", exc=type(e).__name__)
    if p["dep_req"]:
        # the requiring property is given, the required one is not: located at the external name of the missing one
        a_, b_ = p["dep_req"]
        dreq = {k: v for k, v in good.items() if k != exp[b_]}
        dreq[exp[a_]] = 1
        try:
            deserialize(tp, outer(dreq), **kw)
            viol("error_loc", "dependent_required violation accepted", form="dependent_required")
        except ValidationError as e:
            if [x["loc"] for x in e.errors] != [inner_loc([exp[b_]])]:
                viol("error_loc", f"dependent_required error located at {[x['loc'] for x in e.errors]}, expected {[inner_loc([exp[b_]])]}", form="dependent_required")
        except Exception as e:
            viol("error_loc", f"crash {e!r}", exc=type(e).__name__)
    # 2. serialization keys
    try:
        if p["flavor"] == "typeddict":
            val = {f["n"]: 1 for f in fields}
        else:
            val = C(**{f["n"]: 1 for f in fields})
        root_val = val if not wrap else b.module.P(inner=val)
        out = serialize(tp, root_val, **kw)
        got = out[inner_key] if wrap == "nested" else {k: v for k, v in out.items() if k not in (dyn("other_top"),)}
        if set(got) != set(exp.values()):
            viol("serialize", f"serialized keys {sorted(got)}")
        # additional_properties=True lets undeclared keys of a TypedDict through: the declared ones keep their single name
        out = serialize(tp, root_val, additional_properties=True, **kw)
        got = out[inner_key] if wrap == "nested" else {k: v for k, v in out.items() if k not in (dyn("other_top"),)}
        if set(got) != set(exp.values()):
            viol("serialize", f"serialized keys with additional_properties=True {sorted(got)}", additional_properties=True)
    except Exception as e:
        viol("serialize", f"crash {e!r}", exc=type(e).__name__)
    # 3. schemas
    for which, fn in (("deserialization_schema", deserialization_schema), ("serialization_schema", serialization_schema)):
        try:
            schema = fn(tp, **kw)
        except Exception as e:
            if wrap == "flatten":
                ctx.h("schema_crash_with_flatten:" + type(e).__name__)
            else:
                viol(which, f"crash {e!r}", exc=type(e).__name__)
            continue
        node = _find_object(schema, set(exp.values()), wrap, inner_key)
        if node is None:
            viol(which, f"no object schema declaring {sorted(exp.values())}: {schema}")
            continue
        props = set(node.get("properties", {}))
        if wrap == "flatten":
            props -= {dyn("other_top")}
        if props != set(exp.values()):
            viol(which, f"properties {sorted(props)}", clause="properties")
        req = set(node.get("required", []))
        if which == "serialization_schema":
            exp_req = set(exp.values())  # nothing here can be skipped by serialization: every field is always emitted
        else:
            exp_req = {exp[f["n"]] for f in fields if not f["default"] or p["flavor"] == "typeddict"}
        if req != exp_req:
            viol(which, f"required {sorted(req)} expected {sorted(exp_req)}", clause="required")
        if p["dep_req"] and which == "deserialization_schema":
            dr = node.get("dependentRequired", {})
            want = {exp[p["dep_req"][0]]: [exp[p["dep_req"][1]]]}
            if dr != want:
                viol(which, f"dependentRequired {dr} expected {want}", clause="dependentRequired")
    # 5. GraphQL
    if all(GQL_NAME.match(x) for x in exp.values()) and p["flavor"] == "dataclass" and not wrap:
        try:
            names = graphql_names(b, C, dyn if p["via"] == "param" else None)
        except Exception as e:
            viol("graphql", f"crash {e!r}", exc=type(e).__name__)
        else:
            for view, got in names.items():
                want = set(exp.values()) if view != "argument" else {dyn("some_arg")}
                if got != want:
                    viol("graphql", f"{view} names {sorted(got)} expected {sorted(want)}", clause=view)
        ctx.h("graphql_view")
    cands = [candidates(p, f) for f in fields]
    if any(len({c["name"], c["alias"], c["class"], c["dyn"], c["both"]}) == 5 for c in cands):
        ctx.nontriv(p)
        ctx.sample({"program": src, "aliaser": p["dyn"], "via": p["via"], "expected_names": exp})
    ctx.h("via:" + p["via"])
    ctx.h("flavor:" + p["flavor"])


def _find_object(schema, names, wrap, inner_key):
    """The (sub-)schema that declares the class's properties (through $ref / allOf / nesting)."""
    defs = schema.get("$defs", {})

    def deref(n):
        while isinstance(n, dict) and "$ref" in n:
            n = defs.get(n["$ref"].split("/")[-1], {})
        return n

    root = deref(schema)
    if wrap == "nested":
        root = deref(root.get("properties", {}).get(inner_key, {}))
    cands = [root] + [deref(x) for x in root.get("allOf", [])] if isinstance(root, dict) else []
    for c in cands:
        if isinstance(c, dict) and names & set(c.get("properties", {})):
            return c
    for c in cands:
        if isinstance(c, dict) and c.get("type") == "object" and "properties" in c:
            return c
    return cands[0] if cands else None


def graphql_names(b, C, aliaser):
    from apischema.graphql import graphql_schema

    def get_c(some_arg: int = 0) -> C:
        return C()

    def put_c(arg: C) -> int:
        return 0

    get_c.__annotations__ = {"some_arg": int, "return": C}
    put_c.__annotations__ = {"arg": C, "return": int}
    kw = {"aliaser": aliaser}
    schema = graphql_schema(query=[get_c], mutation=[put_c], **kw)
    out = {"object": set(schema.type_map["C"].fields), "input": set(schema.type_map["CInput"].fields)}
    qf = schema.query_type.fields
    (only,) = [f for f in qf.values()]
    out["argument"] = set(only.args)
    return out
