"""C07 — serialized data validates against serialization_schema."""
from __future__ import annotations

import copy
import json

from hypothesis import strategies as st

import apischema
from apischema import serialize
from apischema.json_schema import serialization_schema

from vlib import build, gen, jsoracle
from vlib import model as M
from vlib import tdcase
from vlib.gen import chance, pick
from vlib.runner import HarnessError
from props.c04 import interesting, vshape

ID = "C07"
TITLE = "Serialized data validates against serialization_schema"
RULE = ("Hypothesis draws a type program (as C04), 3-6 typed values of the root type and the settings shared by both sides: aliaser, "
        "additional_properties, and exclude_defaults / exclude_none assigned to settings.serialization (restored after each case).  "
        "Oracle: the schema passes the 2020-12 meta-schema; jsonschema validates serialize(T, v) against serialization_schema(T); "
        "directly: every emitted key of the root object is in properties / matched by patternProperties / allowed by additionalProperties, "
        "every name in required is emitted for every generated value, init=False fields are declared and InitVar fields are not.  "
        "Non-trivial: the root schema (or a definition) has a non-empty required and a property outside required, and the value "
        "exercises an omission or contains a set/tuple/enum.  Distinct = hash(type shape, value shape, settings).")
ASSUMPTIONS = ["no with_fields_set class is generated here (the statement's proviso about unset-tracking); C15 covers exclude_unset",
               "jsonschema 4.26 Draft 2020-12 is the reference validator"]
BUDGET = {"quick": 1500, "thorough": 12000}
SHARDS = {"quick": 8, "thorough": 16}
MIN_NONTRIVIAL = {"quick": 200, "thorough": 4000}
TECHNIQUE = "property-based testing (Hypothesis): serialize output validated by an external JSON Schema validator against serialization_schema under shared global settings"
LEVEL_TEXT = ("Exploration: ~30k (quick) / ~600k (thorough) (type, value, settings) cases; every serialized value must validate (jsonschema) against "
              "the serialization schema generated under the same global settings; required/declared-key clauses checked directly.")
LEVEL_NOTE = "Trusted: jsonschema 4.26; settings are restored in a finally block and caches reset per case."


@st.composite
def strategy_(draw, tier):
    cfg = {"max_depth": 3 if tier == "quick" else 4, "field_conv": True, "generics": True, "std": True, "methods": True, "lit_in_union": False, "unsup": False}
    prog = draw(gen.programs(cfg))
    opts = {"aliaser": pick(draw, ["id", "id", "camel", "pfx"]), "exclude_none": chance(draw, 0.4),
            "exclude_defaults": chance(draw, 0.4), "additional_properties": chance(draw, 0.3)}
    values = [gen.perturb_value(draw, prog, prog["root"], gen.value_for(draw, prog, prog["root"])) for _ in range(draw(st.integers(3, 6)))]
    return {"prog": prog, "opts": opts, "values": values}


def strategy(tier):
    return strategy_(tier)


describe = tdcase.describe


def evaluate(case, ctx):
    prog, opts = case["prog"], case["opts"]
    try:
        b = build.load(prog)
    except Exception as e:
        raise HarnessError(f"generated program does not build: {e!r}\n{build.render(prog)}")
    st_ = apischema.settings.serialization
    old = (st_.exclude_defaults, st_.exclude_none)
    try:
        st_.exclude_defaults = bool(opts.get("exclude_defaults"))
        st_.exclude_none = bool(opts.get("exclude_none"))
        _evaluate(case, ctx, b, prog, opts)
    finally:
        st_.exclude_defaults, st_.exclude_none = old
        b.close()


def resolve(schema, node):
    seen = 0
    while isinstance(node, dict) and "$ref" in node and seen < 10:
        name = node["$ref"].split("/")[-1]
        node = schema.get("$defs", {}).get(name, {})
        seen += 1
    return node


def _evaluate(case, ctx, b, prog, opts):
    kw = {"aliaser": build.ALIASERS[opts["aliaser"]], "additional_properties": bool(opts.get("additional_properties"))}
    tp, root = b.root, prog["root"]
    try:
        schema = serialization_schema(tp, **kw)
    except Exception as e:
        ctx.count()
        import re
        ctx.violation({"kind": "schema_generation_crash", "exc": type(e).__name__, "msg": re.sub(r"[A-Za-z_]*\d+[A-Za-z_0-9]*", "N", str(e))[:60],
                       **tdcase.schema_features(prog)},
                      {"prog": prog, "opts": opts, "values": []}, repr(e))
        return
    explicit_unique = '"unique": true' in json.dumps(prog)
    bad = jsoracle.check_schema(schema)
    if bad:
        ctx.count()
        ctx.violation({"kind": "invalid_schema", "msg": bad.split(":")[-1][:50]}, {"prog": prog, "opts": opts, "values": []}, bad)
        return
    v = jsoracle.validator(schema)
    model = M.Model(prog)
    sopts = M.SerOpts(**opts)
    rs = resolve(schema, schema)
    # a flattened field that serialization may skip as a whole (default-equal value / condition)
    flatten_skippable = any(
        f.get("agg") == "flatten" and ((f.get("default") is not None and (opts.get("exclude_defaults") or (f.get("skip") or {}).get("ser_default")))
                                       or (f.get("skip") or {}).get("ser_if"))
        for cd in prog["classes"] for f in cd["fields"])
    flatten = any(f.get("agg") == "flatten" for cd in prog["classes"] for f in cd["fields"])
    mixed_required = any(isinstance(n, dict) and n.get("required") and set(n.get("properties", {})) - set(n["required"])
                         for n in [rs] + list(schema.get("$defs", {}).values()))
    for vc in case["values"]:
        ctx.count()
        single = {"prog": prog, "opts": opts, "values": [vc]}
        try:
            real = b.value(vc)
        except Exception as e:
            raise HarnessError(f"cannot build value {vc!r}: {e!r}\n{b.source}")
        if not M.canon_eq(M.canon(real), vc):
            ctx.h("value_not_reconstructible")
            continue
        if not M.conforms(prog, root, vc):
            ctx.h("nonconforming_value_skipped")  # e.g. unsatisfiable constraints: not a "value v of T"
            continue
        try:
            model.serialize(root, vc, sopts)
        except (M.Unspecified, M.Mismatch):
            ctx.h("unspecified")  # e.g. a value served by an earlier same-class union alternative
            continue
        try:
            out = serialize(tp, real, **kw)
        except Exception:
            ctx.h("crash_routed_to_C04")
            continue
        try:
            json.dumps(out)
        except Exception as e:
            # an output that is not JSON cannot validate against any schema (C04 reports the same outputs for its own clause)
            ctx.violation({"kind": "output_not_json", "root": tdcase.node_sig(prog, prog["root"])}, single,
                          f"serialize(..., {real!r}) = {out!r}: {e!r}"[:600])
            continue
        ok = v.is_valid(out)
        if not ok:
            kwd = jsoracle.first_error_keyword(v, out)
            if kwd == "uniqueItems" and explicit_unique and (opts.get("exclude_none") or opts.get("exclude_defaults")):
                # `unique` constrains the serialized items; whether two distinct values have one image depends on the
                # omission options (an object whose fields are all omitted and an empty mapping both give {}):
                # such a value violates its own constraint, it is not a "value of T" for these settings
                ctx.h("value_outside_unique_constraint_under_omission")
                continue
            sig = {"kind": "output_invalid", "keyword": kwd, "root": tdcase.node_sig(prog, root), "flatten": flatten}
            if flatten_skippable:
                sig["flatten_skippable"] = True
            if flatten:
                try:
                    if jsoracle.validator(jsoracle.neutralise_flatten(schema)).is_valid(out):
                        sig = {"kind": "output_invalid", "flatten": True, "neutralised": True}
                    elif flatten_skippable and jsoracle.validator(jsoracle.neutralise_flatten(schema, drop_required=True)).is_valid(out):
                        sig = {"kind": "output_invalid", "flatten": True, "flatten_skippable": True, "neutralised_skippable": True}
                    else:
                        sig["survives_neutraliser"] = True
                except Exception:
                    pass
            err = next(iter(v.iter_errors(out)), None)
            ctx.violation(sig, single, f"serialize -> {tdcase.compact(out, 400)}\nschema {tdcase.compact(schema, 900)}\nfirst error: "
                                       f"{list(err.absolute_path) if err else None}: {err.message[:200] if err else None}")
        # direct clauses on the root object
        if isinstance(out, dict) and isinstance(rs, dict) and rs.get("type") == "object" and "allOf" not in rs and root["k"] == "cls":
            props = rs.get("properties", {})
            pats = rs.get("patternProperties", {})
            addl = rs.get("additionalProperties", True)
            import re as _re
            for key in out:
                if key not in props and not any(_re.search(p, key) for p in pats) and addl is False:
                    ctx.violation({"kind": "undeclared_key"}, single, f"key {key!r} of {tdcase.compact(out, 300)} is not declared in {tdcase.compact(rs, 600)}")
                    break
            for r in rs.get("required", []):
                if r not in out:
                    ctx.violation({"kind": "required_not_emitted"}, single, f"required {r!r} absent from {tdcase.compact(out, 300)}; schema {tdcase.compact(rs, 600)}")
                    break
            cd = prog["classes"][root["i"]]
            for f in cd["fields"]:
                name = M.ext_name(f, cd, opts["aliaser"])
                if f.get("agg") or (f.get("skip") or {}).get("ser"):
                    continue
                if f.get("kind") == "init_false" and name not in props:
                    ctx.violation({"kind": "init_false_not_declared"}, single, f"{name!r} missing from properties {sorted(props)}")
                if f.get("kind") == "initvar" and name in props:
                    ctx.violation({"kind": "initvar_declared"}, single, f"{name!r} in properties {sorted(props)}")
        if mixed_required and (interesting(vc) or opts.get("exclude_none") or opts.get("exclude_defaults")):
            ctx.nontriv([tdcase.shape(root, prog), vshape(vc), opts])
            ctx.sample({"type": b.source.split("import uuid, datetime, decimal, pathlib, ipaddress")[-1].strip()[-500:], "settings": opts,
                        "serialized": out, "schema_required": rs.get("required") if isinstance(rs, dict) else None})
