"""C18 — schema dialect conversion preserves the set of valid instances."""
from __future__ import annotations

import copy
import json
import re

from hypothesis import strategies as st

from apischema.json_schema import JsonSchemaVersion, definitions_schema, deserialization_schema

from vlib import build, gen, jsoracle
from vlib import model as M
from vlib import tdcase
from vlib.gen import chance, pick
from vlib.runner import HarnessError
from props.c17 import VERSIONS, collect_refs, schema_programs

ID = "C18"
TITLE = "Schema dialect conversion preserves the set of valid instances"
RULE = ("Hypothesis draws a type program rich in keywords (tuples -> prefixItems/items, named types -> $defs/$ref incl. refs with "
        "sibling keywords, dependent_required, Optional -> nullable, Literal -> const, constraints incl. exclusive bounds, "
        "pattern/additional properties, flattened objects -> unevaluatedProperties) at depth, a target version V in {draft 2019-09, "
        "draft-07, OpenAPI 3.1, OpenAPI 3.0} and 5-12 data (valid, mutants, atoms, random).  Oracle: is_valid_V(d, schema_V(T)) == "
        "is_valid_2020-12(d, schema_2020-12(T)) with jsonschema's Draft201909 / Draft7 / Draft202012 validators, and for OpenAPI 3.0 a "
        "(the vocabulary rule is also applied to definitions_schema given the type in both directions); Draft 4 validator after the documented mapping (nullable, boolean exclusive bounds, example); OpenAPI schemas are validated "
        "inside a document holding definitions_schema(...) under components/schemas.  Comparisons are skipped only where OpenAPI 3.0 "
        "documents a dropped keyword (dependentRequired, unevaluatedProperties, additionalItems) is decisive.  Vocabulary scan at every "
        "nesting level: no prefixItems / $defs / dependentRequired / unevaluatedProperties / const / examples / array type where V does not "
        "have them; every $ref carries V's prefix.  Non-trivial: the 2020-12 schema contains >= 1 keyword that V spells differently.  "
        "Distinct = hash(type shape, version, datum shape).")
ASSUMPTIONS = ["jsonschema 4.26 validators implement each draft's own rules; OpenAPI 3.0 schema object = Draft 4 (wright-00) + nullable as documented by the OAS",
               "draft-07 has no unevaluatedProperties either: comparisons decided by that keyword are skipped there too (counted)",
               "jsonschema's Draft201909Validator mis-evaluates unevaluatedProperties with additionalProperties inside allOf: disagreements decided by that keyword under 2019-09 are skipped (counted)"]
BUDGET = {"quick": 450, "thorough": 7000}
SHARDS = {"quick": 8, "thorough": 16}
MIN_NONTRIVIAL = {"quick": 1000, "thorough": 20000}
TECHNIQUE = "property-based testing (Hypothesis): differential validation of one instance against the 2020-12 schema and the converted schema with per-dialect external validators + vocabulary scan"
LEVEL_TEXT = ("Exploration: ~28k (quick) / ~900k (thorough) (type, version, datum) cases; every datum is validated against both the 2020-12 schema and the "
              "converted one with the validator of the target dialect; converted schemas are scanned for foreign vocabulary at every depth.")
LEVEL_NOTE = "Trusted: jsonschema 4.26 per-draft validators; the OpenAPI 3.0 -> Draft 4 mapping below (nullable, example, boolean exclusive bounds)."

FOREIGN = {
    "2019-09": {"prefixItems"},
    "draft-07": {"prefixItems", "$defs", "dependentRequired", "unevaluatedProperties", "unevaluatedItems"},
    "oas31": set(),
    "oas30": {"prefixItems", "$defs", "definitions", "dependentRequired", "dependencies", "unevaluatedProperties", "additionalItems", "const", "examples"},
}
SPELLED_DIFFERENTLY = {
    "2019-09": {"prefixItems"},
    "draft-07": {"prefixItems", "$defs", "dependentRequired"},
    "oas31": {"$defs", "$ref"},
    "oas30": {"prefixItems", "$defs", "$ref", "const", "examples", "dependentRequired"},
}


@st.composite
def strategy_(draw, tier):
    sets = chance(draw, 0.4)
    prog, _ = draw(schema_programs({"max_depth": 3 if tier == "quick" else 4, "explicit_unique": not sets}, clash_rate=0.0))
    opts = {"version": pick(draw, ["2019-09", "draft-07", "oas31", "oas30", "oas30", "draft-07"]), "additional_properties": chance(draw, 0.25),
            "aliaser": pick(draw, ["id", "id", "camel"]), "all_refs": pick(draw, [None, None, True, False])}
    data = []
    for _ in range(draw(st.integers(5, 12))):
        d, tag = gen.data_for(draw, prog, prog["root"], opts["aliaser"], (35, 35, 10, 20))
        data.append({"d": d, "tag": tag})
    return {"prog": prog, "opts": opts, "data": data}


def strategy(tier):
    return strategy_(tier)


describe = tdcase.describe


def scan(node, foreign, path="$", version=""):
    """First (path, keyword) of a foreign keyword / construct in a converted schema."""
    if isinstance(node, dict):
        for k, v in node.items():
            if k in foreign:
                return f"{path}.{k}", k
            if version == "oas30":
                if k == "type" and isinstance(v, list):
                    return f"{path}.type", "type-array"
                if k in ("exclusiveMinimum", "exclusiveMaximum") and not isinstance(v, bool):
                    return f"{path}.{k}", "numeric-exclusive-bound"
            if k in ("enum", "const", "default", "example", "examples"):
                continue
            if k in ("properties", "patternProperties", "$defs", "definitions", "dependencies", "dependentRequired"):
                if isinstance(v, dict):
                    for kk, vv in v.items():
                        r = scan(vv, foreign, f"{path}.{k}[{kk}]", version)
                        if r:
                            return r
                continue
            r = scan(v, foreign, f"{path}.{k}", version)
            if r:
                return r
    elif isinstance(node, list):
        for i, x in enumerate(node):
            r = scan(x, foreign, f"{path}[{i}]", version)
            if r:
                return r
    return None


def oas30_to_draft4(node):
    """OpenAPI 3.0 Schema Object -> JSON Schema Draft 4 (wright-00) as the OAS documents it."""
    if isinstance(node, list):
        return [oas30_to_draft4(x) for x in node]
    if not isinstance(node, dict):
        return node
    out = {}
    for k, v in node.items():
        if k in ("nullable", "example", "discriminator", "readOnly", "writeOnly", "deprecated", "xml", "externalDocs"):
            continue
        if k in ("enum", "default"):
            out[k] = v
        elif k in ("properties",):
            out[k] = {kk: oas30_to_draft4(vv) for kk, vv in v.items()} if isinstance(v, dict) else v
        else:
            out[k] = oas30_to_draft4(v)
    if node.get("nullable") is True:
        return {"anyOf": [out, {"type": "null"}]} if "$ref" not in out or len(out) > 1 else {"anyOf": [out, {"type": "null"}]}
    return out


def has_keyword(node, kws) -> bool:
    return bool(jsoracle.keywords(node) & kws)


def evaluate(case, ctx):
    prog, opts = case["prog"], case["opts"]
    try:
        b = build.load(prog)
    except Exception as e:
        raise HarnessError(f"generated program does not build: {e!r}\n{build.render(prog)}")
    try:
        _evaluate(case, ctx, b, prog, opts)
    finally:
        b.close()


def _evaluate(case, ctx, b, prog, opts):
    version = opts["version"]
    tp = b.root
    base_kw = {"additional_properties": bool(opts.get("additional_properties")), "aliaser": build.ALIASERS[opts.get("aliaser", "id")]}
    if opts.get("all_refs") is not None:
        base_kw["all_refs"] = opts["all_refs"]
    sets = "set" in json.dumps(prog["root"]) or any('"k": "set"' in json.dumps(c) or '"k": "frozenset"' in json.dumps(c) for c in prog["classes"])
    try:
        ref_schema = json.loads(json.dumps(deserialization_schema(tp, **base_kw)))
        conv = json.loads(json.dumps(deserialization_schema(tp, version=getattr(JsonSchemaVersion, VERSIONS[version]), **base_kw)))
        defs = None
        if version.startswith("oas"):
            dkw = dict(base_kw)
            defs = json.loads(json.dumps(definitions_schema(deserialization=[tp], version=getattr(JsonSchemaVersion, VERSIONS[version]), **dkw)))
    except Exception as e:
        ctx.count()
        ctx.h("schema_generation_crash_routed_to_C17:" + type(e).__name__)
        return
    single0 = {"prog": prog, "opts": opts, "data": []}
    # vocabulary
    hit = scan(conv, FOREIGN[version], version=version) or (defs is not None and scan(defs, FOREIGN[version], "$components", version))
    if hit:
        ctx.count()
        ctx.violation({"kind": "foreign_vocabulary", "version": version, "keyword": hit[1]}, single0,
                      f"{hit[0]} in the {version} schema: {tdcase.compact(conv, 800)}")
    # the same vocabulary rule for definitions_schema given the type in BOTH directions (definitions merged by compare_schemas)
    try:
        both = json.loads(json.dumps(definitions_schema(deserialization=[tp], serialization=[tp], all_refs=True,
                                                        version=getattr(JsonSchemaVersion, VERSIONS[version]),
                                                        additional_properties=base_kw["additional_properties"], aliaser=base_kw["aliaser"])))
    except Exception:
        ctx.h("both_directions:not_mergeable")  # e.g. "Reference X has different schemas for deserialization and serialization"
    else:
        if both:
            ctx.h("both_directions:definitions")
            hit2 = scan(both, FOREIGN[version], "$definitions(both)", version)
            if hit2:
                ctx.count()
                ctx.violation({"kind": "foreign_vocabulary", "version": version, "keyword": hit2[1], "entry": "definitions_schema(both directions)"}, single0,
                              f"{hit2[0]} in definitions_schema(deserialization=[T], serialization=[T], version={version}): {tdcase.compact(both, 800)}")
    prefix = {"2019-09": "#/$defs/", "draft-07": "#/definitions/", "oas30": "#/components/schemas/", "oas31": "#/components/schemas/"}[version]
    for r in collect_refs(conv) + (collect_refs(defs) if defs else []):
        if not r.startswith(prefix):
            ctx.count()
            ctx.violation({"kind": "ref_prefix", "version": version}, single0, f"$ref {r!r} does not carry {prefix!r}")
            break
    # validators
    try:
        v_ref = jsoracle.validator(ref_schema, "2020-12")
        if version == "2019-09":
            v_conv = jsoracle.validator(conv, "2019-09")
        elif version == "draft-07":
            v_conv = jsoracle.validator(conv, "draft-07")
        elif version == "oas31":
            doc = dict(conv)
            doc["components"] = {"schemas": defs}
            v_conv = jsoracle.validator(doc, "2020-12")
        else:
            doc = oas30_to_draft4(conv)
            doc["components"] = {"schemas": {k: oas30_to_draft4(v) for k, v in (defs or {}).items()}}
            bad = jsoracle.check_schema({k: v for k, v in doc.items() if k != "components"}, "draft-04")
            if bad and not hit:
                ctx.count()
                ctx.violation({"kind": "invalid_for_dialect", "version": version, "msg": re.sub(r"\d+", "N", bad)[-40:]}, single0, f"{bad}\n{tdcase.compact(conv, 700)}")
                return
            v_conv = jsoracle.validator(doc, "draft-04")
    except Exception as e:
        ctx.count()
        ctx.violation({"kind": "validator_construction", "exc": type(e).__name__, "version": version}, single0, repr(e)[:300])
        return
    dropped = {"oas30": {"dependentRequired", "unevaluatedProperties", "additionalItems"}, "draft-07": {"unevaluatedProperties"}}.get(version, set())
    ref_for_cmp, stripped = ref_schema, False
    if dropped and has_keyword(ref_schema, dropped | ({"items"} if version == "oas30" else set())):
        # compare against the 2020-12 schema without the keywords V cannot express (documented drop)
        ref_for_cmp = ref_schema
        for kwd in dropped:
            ref_for_cmp = jsoracle.strip_keyword(ref_for_cmp, kwd)
        if version == "oas30":
            ref_for_cmp = _strip_items_false(ref_for_cmp)
        stripped = True
        v_ref = jsoracle.validator(ref_for_cmp, "2020-12")
    diff_kw = jsoracle.keywords(ref_schema) & SPELLED_DIFFERENTLY[version]
    for item in list(case["data"]) + _bound_probes(ref_schema, case["data"]):
        d, tag = item["d"], item.get("tag", "?")
        if jsoracle.has_int_valued_float(d):
            ctx.h("skipped:int_valued_float")  # 1.0 is an integer for 2019-09+/draft-07 but not for Draft 4: outside the common domain
            continue
        ctx.count()
        try:
            a = v_ref.is_valid(d)
            c = v_conv.is_valid(d)
        except Exception as e:
            ctx.violation({"kind": "validation_error", "exc": type(e).__name__, "version": version}, {"prog": prog, "opts": opts, "data": [item]}, repr(e)[:400])
            break
        if a != c:
            kwd = jsoracle.first_error_keyword(v_conv if a else v_ref, d)
            if version == "2019-09" and a and (kwd == "unevaluatedProperties" or "unevaluatedProperties" in jsoracle.error_keywords(v_conv, d)):
                # (under an anyOf the best-matching sub-error names another keyword: the whole error tree is looked at)
                # jsonschema's Draft201909 implementation of unevaluatedProperties does not see properties evaluated by
                # additionalProperties inside allOf (same schema, same datum: 2019-09 False, 2020-12 True): oracle limitation
                ctx.h("skipped:jsonschema_2019_unevaluatedProperties")
                continue
            ctx.violation({"kind": "verdict_differs", "version": version, "dir": "converted_rejects" if a else "converted_accepts", "keyword": kwd,
                           "stripped_dropped_keywords": stripped}, {"prog": prog, "opts": opts, "data": [item]},
                          f"datum {tdcase.compact(d, 200)}: 2020-12 says {a}, {version} says {c}\n2020-12: {tdcase.compact(ref_for_cmp, 600)}\n{version}: {tdcase.compact(conv, 600)}")
        if diff_kw:
            ctx.nontriv([tdcase.shape(prog["root"], prog), version, tdcase.dshape(d), a])
            ctx.sample({"type": b.source.split("ROOT = ")[-1].strip(), "version": version, "datum": d, "valid": a, "respelled_keywords": sorted(diff_kw)})
    ctx.h("version:" + version)


def _strip_items_false(node):
    """OpenAPI 3.0 drops additionalItems, i.e. the `items: false` closing a 2020-12 tuple."""
    if isinstance(node, dict):
        out = {}
        for k, v in node.items():
            if k == "items" and v is False and "prefixItems" in node:
                continue
            out[k] = _strip_items_false(v)
        return out
    if isinstance(node, list):
        return [_strip_items_false(x) for x in node]
    return node


_BOUND_KW = ("minimum", "maximum", "exclusiveMinimum", "exclusiveMaximum")


def _bound_probes(schema, data, limit=48):
    """Data derived from the generated ones (no further randomness): every number of a generated datum is replaced by each bound
    written in the 2020-12 schema and by its neighbours, so that the two validators are also compared exactly at, just below and
    just above every numeric bound."""
    bounds = set()

    def collect(node):
        if isinstance(node, dict):
            for k, v in node.items():
                if k in _BOUND_KW and isinstance(v, (int, float)) and not isinstance(v, bool):
                    bounds.add(v)
                collect(v)
        elif isinstance(node, list):
            for v in node:
                collect(v)

    collect(schema)
    if not bounds:
        return []
    cands = sorted({b + delta for b in bounds for delta in (0, 1, -1, 0.5, -0.5)})
    cands = [int(c) if float(c).is_integer() else c for c in cands]

    def positions(d, path=()):
        if isinstance(d, bool):
            return
        if isinstance(d, (int, float)):
            yield path
        elif isinstance(d, dict):
            for k in sorted(d):
                yield from positions(d[k], path + (k,))
        elif isinstance(d, list):
            for i, v in enumerate(d):
                yield from positions(v, path + (i,))

    def replace(d, path, v):
        if not path:
            return v
        if isinstance(d, dict):
            return {k: (replace(x, path[1:], v) if k == path[0] else x) for k, x in d.items()}
        return [replace(x, path[1:], v) if i == path[0] else x for i, x in enumerate(d)]

    out, seen = [], set()
    for item in data:
        for path in list(positions(item["d"]))[:4]:
            for v in cands:
                d2 = replace(item["d"], path, v)
                key = json.dumps(d2, sort_keys=True)
                if key in seen:
                    continue
                seen.add(key)
                out.append({"d": d2, "tag": "bound_probe"})
                if len(out) >= limit:
                    return out
    return out
