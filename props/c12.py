"""C12 — conversions compose: a converted type behaves as its source / target."""
from __future__ import annotations

import collections
import copy
from typing import List
import json

from hypothesis import strategies as st

import apischema
from apischema import ValidationError, deserialize, serialize
from apischema.json_schema import deserialization_schema, serialization_schema

from vlib import build, gen, jsoracle
from vlib import model as M
from vlib import tdcase
from vlib.gen import chance, pick
from vlib.runner import HarnessError

ID = "C12"
TITLE = "Conversions compose: a converted type behaves as its source / target"
RULE = ("Hypothesis draws a conversion program over an opaque wrapper class W (and a subclass): 1-3 deserializers f_i: S_i -> W whose "
        "sources S_i come from a pool (int, str, List[int], Dict[str, int], Tuple[int, str], Optional[int], constrained int, a "
        "dataclass, a second converted class W2 for chains), some wrapped in catch_value_error and failing on part of their domain; "
        "one serializer g: W -> U (optionally inherited=False); a placement in {registered, dynamic conversion=, field metadata, "
        "default_conversion=}; optionally constraints given from outside the converted type (per-call schema= or field schema: they "
        "constrain the source data, in deserialize as in the schema); a nesting in {bare, List, Dict values, Optional, Tuple, Union with bool, field of a nested object (dataclass, NamedTuple or TypedDict), Deque (std registered conversion "
        "from / to list) and a user generic Collection with registered conversions from / to List}; and "
        "5-9 data (valid data of each source, mutants, atoms).  Oracle = commuting squares evaluated with apischema itself: "
        "deserialize(nest[W], d) accepts iff the element-wise composition 'first S_i accepting d, then f_i' accepts, with equal value "
        "(ValueError of a catching converter = rejection by that alternative); serialize(nest[W], v) == nest-wise serialize(U, g(v)), "
        "also for the subclass (inherited) and refused for it when inherited=False; jsonschema validity of d against schema(nest[W]) == "
        "validity against the anyOf of schema(S_i); a dynamic conversion reaches container elements but leaves the field of a nested "
        "object as without it; conversion=identity restores the native behaviour of a dataclass having a registered conversion.  "
        "A recursive family (1 case in 7): Tree(label, children: List[Tree]) <-> Tagged(tag, node: Tree) with the conversion at field level "
        "and / or passed dynamically for List[Tree], random trees; expected images computed by hand (field-level: every children list at "
        "every depth is tagged; dynamic: the elements of the root list only), deserialization gives the value back and refuses untagged data.  "
        "Non-trivial: the conversion is reached through >= 1 container, or >= 2 deserializers / a chain are composed.  "
        "Distinct = hash(program, datum shape).")
ASSUMPTIONS = ["sources are evaluated alone through the public deserialize / serialize (metamorphic oracle, no model)"]
BUDGET = {"quick": 600, "thorough": 9000}
SHARDS = {"quick": 8, "thorough": 16}
MIN_NONTRIVIAL = {"quick": 1500, "thorough": 25000}
TECHNIQUE = "property-based testing (Hypothesis): commuting-square (metamorphic) oracle over generated conversion graphs, placements and nestings; jsonschema for the schema side"
LEVEL_TEXT = ("Exploration: ~30k (quick) / ~500k (thorough) (conversion program, datum) cases; converted types are compared with the composition of "
              "their source type and converter computed by apischema itself, for deserialization, serialization and both schemas.")
LEVEL_NOTE = "Trusted: deserialize / serialize on the plain source types (decided by C01/C04); jsonschema for schema equivalence."

SOURCES = {
    "int": {"k": "int"},
    "str": {"k": "str"},
    "list_int": {"k": "list", "sp": "List", "of": {"k": "int"}},
    "dict_int": {"k": "map", "sp": "Dict", "key": {"k": "str"}, "val": {"k": "int"}},
    "tuple": {"k": "tuple", "sp": "Tuple", "items": [{"k": "int"}, {"k": "str"}]},
    "opt_int": {"k": "opt", "of": {"k": "int"}},
    "pos_int": {"k": "ann", "of": {"k": "int"}, "c": {"min": 0}},
    "float": {"k": "float"},
    "point": {"k": "cls", "i": 0},
}
PROG_BASE = {"future": True, "enums": [], "newtypes": [], "classes": [
    {"name": "Point", "flavor": "dataclass", "fields": [{"n": "x", "t": {"k": "int"}}, {"n": "y", "t": {"k": "str"}, "default": {"c": ["str", "d"]}}]}]}
NESTS = ["bare", "list", "map", "opt", "tuple", "union", "field", "deque", "bag"]


@st.composite
def strategy_(draw, tier):
    n = draw(st.integers(1, 3))
    srcs = draw(st.lists(st.sampled_from(list(SOURCES)), min_size=n, max_size=n, unique=True))
    # avoid ambiguous overlapping sources for the expected 'first accepting' computation? No: overlap is the point (int / float / opt_int / pos_int)
    prog = {
        "sources": srcs,
        "catch": [chance(draw, 0.35) for _ in srcs],
        "placement": pick(draw, ["registered", "registered", "dynamic", "field", "default_conversion"]),
        "nest": pick(draw, NESTS),
        "ser_target": pick(draw, ["int", "str", "list_int", "point"]),
        "inherited": pick(draw, [None, None, True, False]),
        "chain": chance(draw, 0.2),
        "conv_object": chance(draw, 0.4),
    }
    if prog["nest"] == "field" and prog["placement"] != "field" and chance(draw, 0.6):
        # the nested object is a NamedTuple (an object type that is also a Collection) or a TypedDict (no class checks)
        prog["holder_nt" if chance(draw, 0.5) else "holder_td"] = True
    if prog["nest"] == "bare" and prog["placement"] in ("registered", "dynamic", "field") and chance(draw, 0.35):
        # constraints given from outside the converted type (per-call schema= / field schema): they constrain the source data
        prog["outer"] = pick(draw, [{"min": 1}, {"max": 2}, {"max_len": 1}, {"min_items": 2}, {"min": 0, "max_len": 3}])
    data = []
    for _ in range(draw(st.integers(5, 9))):
        r = draw(st.integers(0, 99))
        src = SOURCES[pick(draw, srcs)]
        if r < 55:
            d = gen.valid(draw, PROG_BASE, src)
        elif r < 80:
            d, _, _ = gen.mutants(draw, gen.valid(draw, PROG_BASE, src), 1)
        else:
            d = pick(draw, gen.ATOMS + [13, "13", [13], -13])
        data.append(d)
    values = [draw(st.integers(-3, 20)) for _ in range(3)]
    return {"prog": prog, "data": data, "values": values}


# ---------------------------------------------------------------------------------------
# recursive family: a conversion met at two places of one recursive cycle
# ---------------------------------------------------------------------------------------

REC_SRC = (
    "from apischema.conversions import Conversion\n"
    "def to_tagged(t: 'Tree') -> 'Tagged':\n    return Tagged('tree', t)\n"
    "def from_tagged(g: 'Tagged') -> 'Tree':\n    return g.node\n"
    "@dataclass\nclass Tree:\n    label: str\n"
    "    children: List['Tree'] = field(default_factory=list{FIELD_MD})\n"
    "@dataclass\nclass Tagged:\n    tag: str\n    node: Tree\n")
FIELD_MD = ", metadata=conversion(deserialization=from_tagged, serialization=to_tagged)"

trees = st.recursive(st.builds(lambda l: [l, []], st.sampled_from(["a", "b", "c"])),
                     lambda ch: st.builds(lambda l, kids: [l, kids], st.sampled_from(["a", "b"]), st.lists(ch, max_size=3)), max_leaves=6)


def rec_image(tree, field_level: bool, dynamic: bool, top=True):
    """Expected JSON of a Tree [label, kids]: a field-level conversion tags every `children` list at every depth; a
    dynamic conversion given for List[Tree] tags the elements of that list only (it does not enter object fields)."""
    label, kids = tree
    kid_imgs = [rec_image(k, field_level, False, False) for k in kids]
    if field_level:
        kid_imgs = [{"tag": "tree", "node": k} for k in kid_imgs]
    return {"label": label, "children": kid_imgs}


def rec_value(mod, tree):
    return mod.Tree(tree[0], [rec_value(mod, k) for k in tree[1]])


def evaluate_rec(case, ctx):
    fl = case["field_level"]
    src = build.PRELUDE + REC_SRC.replace("{FIELD_MD}", FIELD_MD if fl else "")
    try:
        b = build.load({"future": False, "enums": [], "newtypes": [], "classes": []}, source=src)
    except Exception as e:
        raise HarnessError(f"recursive conversion program does not build: {e!r}\n{src}")
    try:
        mod = b.module
        for tree in case["trees"]:
            ctx.count()
            single = dict(case, trees=[tree])
            depth = _tree_depth(tree)
            # serialization
            for root_list in (False, True):
                dyn = root_list and case["dynamic"]
                val = [rec_value(mod, tree)] if root_list else rec_value(mod, tree)
                tp = List[mod.Tree] if root_list else mod.Tree
                exp = rec_image(tree, fl, False)
                if root_list:
                    exp = [{"tag": "tree", "node": exp}] if dyn else [exp]
                kw = {"conversion": mod.to_tagged} if dyn else {}
                try:
                    got = serialize(tp, val, **kw)
                except Exception as e:
                    got = f"raised {type(e).__name__}"
                if got != exp:
                    ctx.violation({"side": "serialization", "kind": "recursive_image_differs", "field_level": fl, "dynamic": dyn, "depth": min(depth, 3)}, single,
                                  f"serialize({'List[Tree]' if root_list else 'Tree'}, {val!r}{', conversion=to_tagged' if dyn else ''}) = {got!r}\nexpected {exp!r}\n{src[-700:]}")
                # deserialization of the expected image gives the value back; the un-tagged image is refused where tags are expected
                dkw = {"conversion": mod.from_tagged} if dyn else {}
                try:
                    back = deserialize(tp, copy.deepcopy(exp), **dkw)
                except Exception as e:
                    back = f"raised {type(e).__name__}"
                if back != val:
                    ctx.violation({"side": "deserialization", "kind": "recursive_value_differs", "field_level": fl, "dynamic": dyn, "depth": min(depth, 3)}, single,
                                  f"deserialize of {exp!r} = {back!r}\nexpected {val!r}\n{src[-700:]}")
                if (fl and depth >= 2) or dyn:
                    plain = rec_image(tree, False, False)
                    plain = [plain] if root_list else plain
                    if plain != exp:
                        try:
                            deserialize(tp, copy.deepcopy(plain), **dkw)
                            ctx.violation({"side": "deserialization", "kind": "untagged_accepted", "field_level": fl, "dynamic": dyn}, single,
                                          f"{plain!r} accepted although converted elements are expected\n{src[-700:]}")
                        except ValidationError:
                            pass
            if depth >= 2 and (fl or case["dynamic"]):
                ctx.nontriv(["rec", fl, case["dynamic"], tree])
                ctx.sample({"program": "recursive Tree / Tagged family", "field_level_conversion": fl, "dynamic": case["dynamic"], "tree": tree})
        ctx.h("rec_family")
    finally:
        b.close()


def _tree_depth(tree) -> int:
    return 1 + max([_tree_depth(k) for k in tree[1]], default=0)


@st.composite
def rec_strategy(draw):
    return {"rec": True, "field_level": chance(draw, 0.6), "dynamic": chance(draw, 0.5), "trees": draw(st.lists(trees, min_size=2, max_size=5))}


def strategy(tier):
    return st.one_of(strategy_(tier), strategy_(tier), strategy_(tier), strategy_(tier), strategy_(tier), strategy_(tier), rec_strategy())


def render(p) -> str:
    lines = ["from apischema.conversions import catch_value_error, Conversion", "from apischema import identity", "",
             "@dataclass", "class Point:", "    x: int", "    y: str = 'd'", "",
             "class W:", "    def __init__(self, payload):", "        self.payload = payload",
             "    def __eq__(self, other):", "        return type(other) is type(self) and other.payload == self.payload",
             "    def __hash__(self):", "        return hash(repr(self.payload))",
             "    def __repr__(self):", "        return f'{type(self).__name__}({self.payload!r})'", "",
             "class SubW(W):", "    pass", "",
             "TB = TypeVar('TB')",
             "class Bag(Collection[TB]):  # a user container with registered conversions from / to List",
             "    def __init__(self, items):", "        self.items = list(items)",
             "    def __iter__(self):", "        return iter(self.items)",
             "    def __len__(self):", "        return len(self.items)",
             "    def __contains__(self, x):", "        return x in self.items",
             "    def __eq__(self, other):", "        return type(other) is Bag and other.items == self.items",
             "    def __repr__(self):", "        return f'Bag({self.items!r})'",
             "def bag_from_list(items: List[TB]) -> Bag[TB]:", "    return Bag(items)",
             "def bag_to_list(bag: Bag[TB]) -> List[TB]:", "    return list(bag)",
             "deserializer(bag_from_list)", "serializer(bag_to_list)", "",
             "class W2(W):", "    pass", ""]
    convs = []
    for i, s in enumerate(p["sources"]):
        te = build.texpr(SOURCES[s], PROG_BASE)
        src_te = "W2" if (p["chain"] and i == 0) else te
        lines += [f"def f{i}(x: {src_te}) -> W:",
                  f"    if {'x.payload' if src_te == 'W2' else 'x'} in (13, '13', [13]):", "        raise ValueError('unlucky')",
                  f"    return W(('f{i}', x))", ""]
        convs.append(f"catch_value_error(f{i})" if p["catch"][i] else f"f{i}")
    if p["chain"]:
        te0 = build.texpr(SOURCES[p["sources"][0]], PROG_BASE)
        lines += [f"def to_w2(x: {te0}) -> W2:", "    return W2(('w2', x))", "deserializer(to_w2)", ""]
    ute = build.texpr(SOURCES[p["ser_target"]], PROG_BASE)
    body = {"int": "w.payload", "str": "'s' + str(w.payload)", "list_int": "[w.payload, w.payload + 1]", "point": "Point(w.payload, 'p')"}[p["ser_target"]]
    lines += [f"def g(w: W) -> {ute}:", f"    return {body}", ""]
    inh = "" if p["inherited"] is None else f", inherited={p['inherited']}"
    # the serializer is given as a function, or as a Conversion object (whose `inherited` defaults to None = inherited)
    lines.append(f"G = Conversion(g{inh})" if (inh or p.get("conv_object")) else "G = g")
    lines.append("DESER = (" + "".join(c + ", " for c in convs) + ")")
    if p["placement"] == "registered":
        lines += [f"deserializer({c})" for c in convs] + ["serializer(G)"]
    nest_t = {"bare": "W", "list": "List[W]", "map": "Dict[str, W]", "opt": "Optional[W]", "tuple": "Tuple[W, int]", "union": "Union[W, bool]", "field": "W", "deque": "Deque[W]", "bag": "Bag[W]"}[p["nest"]]
    if p["placement"] == "field":
        outer_md = (" | schema(" + ", ".join(f"{k}={v!r}" for k, v in p["outer"].items()) + ")") if p.get("outer") else ""
        lines += ["@dataclass", "class Holder:", f"    w: {nest_t} = field(metadata=conversion(deserialization=DESER, serialization=G){outer_md})", "    other: int = 0", "ROOT = Holder"]
    elif p["nest"] == "field" and p.get("holder_td"):
        lines += ["class HolderBase(TypedDict):", "    w: W", "class Holder(HolderBase, total=False):", "    other: int", "ROOT = Holder"]
    elif p["nest"] == "field" and p.get("holder_nt"):
        lines += ["class Holder(NamedTuple):", "    w: W", "    other: int = 0", "ROOT = Holder"]
    elif p["nest"] == "field":
        lines += ["@dataclass", "class Holder:", "    w: W", "    other: int = 0", "ROOT = Holder"]
    else:
        lines.append(f"ROOT = {nest_t}")
    lines += ["", "@dataclass", "class Native:", "    a: int = 0", "def native_from_int(v: int) -> Native:", "    return Native(v + 1000)",
              "def native_to_int(n: Native) -> int:", "    return n.a + 1000", "deserializer(native_from_int)", "serializer(native_to_int)"]
    return "\n".join(lines) + "\n"


def describe(case):
    if case.get("rec"):
        return f"recursive Tree / Tagged family, field_level={case['field_level']}, dynamic={case['dynamic']}, trees={case['trees']}"
    return render(case["prog"])


class Reject(Exception):
    pass


def evaluate(case, ctx):
    if case.get("rec"):
        return evaluate_rec(case, ctx)
    p = case["prog"]
    src = render(p)
    try:
        b = build.load({"future": True, "enums": [], "newtypes": [], "classes": []}, source=build.PRELUDE + src)
    except Exception as e:
        raise HarnessError(f"conversion program does not build: {e!r}\n{src}")
    try:
        _evaluate(case, ctx, b, src)
    finally:
        b.close()


def _evaluate(case, ctx, b, src):
    p = case["prog"]
    mod = b.module
    W = mod.W
    placement, nest = p["placement"], p["nest"]
    dkw, skw = {}, {}
    if placement == "dynamic":
        dkw["conversion"] = mod.DESER
        skw["conversion"] = mod.G
    elif placement == "default_conversion":
        from apischema.conversions.converters import default_deserialization, default_serialization
        dkw["default_conversion"] = lambda tp: mod.DESER if tp is W else default_deserialization(tp)
        skw["default_conversion"] = lambda tp: mod.G if tp is W else default_serialization(tp)
    root = mod.ROOT
    outer = p.get("outer")
    schema_kw = {}
    if outer and placement != "field":
        from apischema import schema as _schema
        schema_kw["schema"] = _schema(**outer)
        dkw["schema"] = schema_kw["schema"]
    src_types = []
    for i, s in enumerate(p["sources"]):
        src_types.append(mod.W2 if (p["chain"] and i == 0) else eval(build.texpr(SOURCES[s], PROG_BASE), mod.__dict__))
    fs = [getattr(mod, f"f{i}") for i in range(len(p["sources"]))]
    dynamic_into_field = placement == "dynamic" and nest == "field"

    def conv_one(d):
        """first source accepting d, then its converter (ValueError of a catching converter = rejection)"""
        if outer:
            try:
                if M.check_constraints(outer, d):
                    raise Reject
            except M.Unspecified:
                raise Reject
        for tp, f, catch in zip(src_types, fs, p["catch"]):
            try:
                v = deserialize(tp, copy.deepcopy(d))
            except ValidationError:
                continue
            try:
                return f(v)
            except ValueError:
                if catch:
                    continue
                raise
        raise Reject

    def expect_nested(d):
        if placement == "field":
            if not isinstance(d, dict) or set(d) - {"w", "other"} or "w" not in d:
                raise Reject
            if "other" in d and (not isinstance(d["other"], int) or isinstance(d["other"], bool)):
                raise Reject
            return mod.Holder(expect_inner(d["w"]), d.get("other", 0))
        return expect_inner(d)

    def expect_inner(d):
        if nest in ("bare",) or (nest == "field" and placement == "field"):
            return conv_one(d)
        if nest == "field":
            if not isinstance(d, dict) or set(d) - {"w", "other"} or "w" not in d:
                raise Reject
            if "other" in d and (not isinstance(d["other"], int) or isinstance(d["other"], bool)):
                raise Reject
            if p.get("holder_td"):
                return {"w": conv_one(d["w"]), **({"other": d["other"]} if "other" in d else {})}
            return mod.Holder(conv_one(d["w"]), d.get("other", 0))
        if nest in ("list", "deque", "bag"):
            if not isinstance(d, list):
                raise Reject
            items = [conv_one(x) for x in d]
            return items if nest == "list" else collections.deque(items) if nest == "deque" else mod.Bag(items)
        if nest == "map":
            if not isinstance(d, dict) or not all(isinstance(k, str) for k in d):
                raise Reject
            return {k: conv_one(x) for k, x in d.items()}
        if nest == "opt":
            return None if d is None else conv_one(d)
        if nest == "tuple":
            if not isinstance(d, list) or len(d) != 2 or not isinstance(d[1], int) or isinstance(d[1], bool):
                raise Reject
            return (conv_one(d[0]), d[1])
        if nest == "union":
            try:
                return conv_one(d)
            except Reject:
                if isinstance(d, bool):
                    return d
                raise
        raise AssertionError(nest)

    composed = len(p["sources"]) >= 2 or p["chain"] or nest != "bare" or placement == "field"
    node = {"placement": placement, "nest": nest}
    if outer:
        node["outer_constraints"] = True
    for d in case["data"]:
        ctx.count()
        if placement == "field" or nest == "field":
            datum = {"w": d} if not (isinstance(d, dict) and "w" in d) else d
        elif nest in ("list", "deque", "bag"):
            datum = d if isinstance(d, list) and chance_det(d) else [d, d]
        elif nest == "map":
            datum = {"k": d}
        elif nest == "tuple":
            datum = [d, 1]
        else:
            datum = d
        single = {"prog": p, "data": [d], "values": []}
        try:
            got = ("ok", deserialize(root, copy.deepcopy(datum), **dkw))
        except ValidationError as e:
            got = ("err", e.errors)
        except ValueError as e:
            got = ("ValueError", str(e))
        except Exception as e:
            if dynamic_into_field and type(e).__name__ == "Unsupported":
                ctx.h("dynamic_conversion_not_applied_to_object_field(expected)")
                continue
            ctx.violation({"side": "deserialization", "kind": "crash", "exc": type(e).__name__, **node}, single, f"{e!r} on {datum!r}\n{src}")
            continue
        if dynamic_into_field:
            # a dynamic conversion must not reach the field of a nested object: W is not deserializable there
            ctx.violation({"side": "deserialization", "kind": "dynamic_conversion_reached_object_field", **node}, single, f"{got!r}\n{src}")
            continue
        try:
            exp = ("ok", expect_nested(datum))
        except Reject:
            exp = ("err", None)
        except ValueError as e:
            exp = ("ValueError", str(e))
        if exp[0] != got[0]:
            ctx.violation({"side": "deserialization", "kind": "acceptance_differs", "expected": exp[0], "got": got[0], **node,
                           "catch": any(p["catch"]), "n_sources": len(p["sources"]), "chain": p["chain"]}, single,
                          f"datum {datum!r}: composition gives {exp!r}, apischema gives {got!r}\n{src}")
        elif exp[0] == "ok" and repr(exp[1]) != repr(got[1]):
            ctx.violation({"side": "deserialization", "kind": "value_differs", **node, "n_sources": len(p["sources"]), "chain": p["chain"]}, single,
                          f"datum {datum!r}: composition gives {exp[1]!r}, apischema gives {got[1]!r}\n{src}")
        # schema side
        if placement in ("registered", "field", "dynamic") and not dynamic_into_field and not jsoracle.has_int_valued_float(datum):
            try:
                skw2 = {"conversion": mod.DESER} if placement == "dynamic" else {}
                sch = json.loads(json.dumps(deserialization_schema(root, **skw2, **schema_kw)))
                valid = jsoracle.validator(sch).is_valid(datum)
                if valid != (got[0] == "ok") and not (got[0] == "err" and _only_value_error(got[1])) and got[0] != "ValueError":
                    ctx.violation({"side": "schema", "kind": "schema_disagrees", "schema_valid": valid, **node}, single,
                                  f"datum {datum!r}: deserialize {got[0]}, schema valid={valid}\nschema {json.dumps(sch)[:500]}\n{src}")
            except Exception as e:
                ctx.violation({"side": "schema", "kind": "crash", "exc": type(e).__name__, **node}, single, f"{e!r}\n{src}")
        if composed:
            ctx.nontriv([p, tdcase.dshape(datum)])
            if ctx.evaluations % 5 == 0:
                ctx.sample({"program": src[src.find("class W2"):][-900:], "datum": datum, "outcome": got[0]})
    # serialization squares
    ser_target = eval(build.texpr(SOURCES[p["ser_target"]], PROG_BASE), mod.__dict__)
    if placement != "default_conversion" or True:
        for n in case["values"]:
            ctx.count()
            for cls_name in ("W", "SubW"):
                if cls_name == "SubW" and placement == "default_conversion":
                    continue  # inheritance is a feature of the *registered* default conversion, not of a user-given function
                cls = getattr(mod, cls_name)
                w = cls(n)
                inherited_ok = not (cls_name == "SubW" and p["inherited"] is False)
                val, rtype = nest_value(mod, p, w), nest_type(mod, p, cls_name)
                if placement in ("field",):
                    val, rtype = mod.Holder(w=val), mod.Holder
                elif nest == "field":
                    if cls_name == "SubW":
                        continue
                    val, rtype = mod.Holder(w=w), mod.Holder
                single = {"prog": p, "data": [], "values": [n]}
                try:
                    got = ("ok", serialize(rtype, val, **skw))
                except Exception as e:
                    got = ("exc", type(e).__name__)
                if placement == "dynamic" and nest == "field":
                    if got[0] == "ok":
                        ctx.violation({"side": "serialization", "kind": "dynamic_conversion_reached_object_field", **node}, single, f"{got!r}\n{src}")
                    continue
                try:
                    inner = serialize(ser_target, mod.g(w))
                    exp = ("ok", nest_image(p, inner, placement))
                except Exception as e:
                    exp = ("exc", type(e).__name__)
                if not inherited_ok and placement in ("registered", "default_conversion"):
                    if nest in ("opt", "union"):
                        continue  # a union whose only other member is unsupported: outside the supported domain
                    if got[0] == "ok":
                        ctx.violation({"side": "serialization", "kind": "inherited_false_ignored", **node}, single,
                                      f"serializer registered with inherited=False but SubW serialized as {got[1]!r}\n{src}")
                    continue
                if cls_name == "SubW" and placement in ("dynamic", "field") and p["inherited"] is False:
                    continue  # explicitly given conversions apply by subclass check; 'inherited' concerns registered ones
                if got != exp:
                    ctx.violation({"side": "serialization", "kind": "image_differs", "cls": cls_name, **node, "inherited": str(p["inherited"])}, single,
                                  f"serialize({rtype}, {val!r}) = {got!r}; serialize(U, g(v)) nested = {exp!r}\n{src}")
    # identity bypass
    ctx.count()
    try:
        r1 = deserialize(mod.Native, 5)
        r2 = deserialize(mod.Native, {"a": 5}, conversion=apischema.identity)
        s1 = serialize(mod.Native, mod.Native(5))
        s2 = serialize(mod.Native, mod.Native(5), conversion=apischema.identity)
        if (r1, r2, s1, s2) != (mod.Native(1005), mod.Native(5), 1005, {"a": 5}):
            ctx.violation({"side": "identity", "kind": "bypass_differs"}, {"prog": p, "data": [], "values": []}, f"{(r1, r2, s1, s2)!r}")
    except Exception as e:
        ctx.violation({"side": "identity", "kind": "crash", "exc": type(e).__name__}, {"prog": p, "data": [], "values": []}, repr(e))
    ctx.h("placement:" + placement)
    ctx.h("nest:" + nest)


def chance_det(d) -> bool:
    return len(repr(d)) % 2 == 0


def _only_value_error(errors) -> bool:
    return bool(errors) and any(e["err"] == "unlucky" for e in errors)  # converter failures cannot be expressed by a schema


def nest_type(mod, p, cls_name):
    W = getattr(mod, cls_name)
    from typing import Deque, Dict, List, Optional, Tuple, Union
    return {"bare": W, "list": List[W], "map": Dict[str, W], "opt": Optional[W], "tuple": Tuple[W, int], "union": Union[W, bool], "field": W,
            "deque": Deque[W], "bag": mod.Bag[W]}[p["nest"]]


def nest_value(mod, p, w):
    return {"bare": w, "list": [w, w], "map": {"k": w}, "opt": w, "tuple": (w, 1), "union": w, "field": w,
            "deque": collections.deque([w, w]), "bag": mod.Bag([w, w])}[p["nest"]]


def nest_image(p, inner, placement):
    img = {"bare": inner, "list": [inner, inner], "map": {"k": inner}, "opt": inner, "tuple": [inner, 1], "union": inner, "field": inner,
           "deque": [inner, inner], "bag": [inner, inner]}[p["nest"]]
    if p["nest"] == "field" and p.get("holder_td"):
        return {"w": img}
    if placement == "field" or p["nest"] == "field":
        return {"w": img, "other": 0}
    return img
