"""C17 — generated JSON Schemas are well-formed, closed and finite."""
from __future__ import annotations

import copy
import itertools
import json
import re
from typing import Dict, List, Optional

from hypothesis import strategies as st

from apischema.json_schema import JsonSchemaVersion, definitions_schema, deserialization_schema, serialization_schema

from vlib import build, gen, jsoracle
from vlib import model as M
from vlib import tdcase
from vlib.gen import chance, pick
from vlib.runner import HarnessError

ID = "C17"
TITLE = "Generated JSON Schemas are well-formed, closed and finite"
RULE = ("Hypothesis draws a type program biased to naming features: classes / NewTypes / enums with type_name overrides (string, "
        "None), sharing of named types through containers, unions and several fields, self- and mutually recursive classes, and "
        "deliberately clashing names (two distinct classes given the same type_name); options: all_refs in {default, True, False}, "
        "ref_factory in {default, custom prefix}, version in {2020-12, 2019-09, draft-07, OpenAPI 3.0, 3.1}, with_schema, entry point in "
        "{deserialization_schema, serialization_schema}, additional_properties, aliaser.  Oracle: generation terminates (no "
        "RecursionError); the result is valid against the meta-schema of the dialect it declares via $schema (OpenAPI: no $schema, checked "
        "against 2020-12 for 3.1 and Draft 4 + nullable mapping for 3.0); every $ref, after un-applying the ref factory, names a key of "
        "$defs / definitions (or of definitions_schema(...) for OpenAPI / custom factories); with all_refs=True every named type reachable "
        "from the root is a definition; with all_refs=False every definition is referenced >= 2 times or lies on a reference cycle; "
        "definitions_schema returns exactly the inline definitions - for the root alone and for 2-4 entries (root, classes, containers of "
        "them, 45% paired with a dynamic conversion between two classes of the program): union of the entries' inline $defs under "
        "all_refs=True, closed under $ref, independent of entry order; a name clash raises ValueError instead of producing a schema.  "
        "A second enumerated family (156 cases) gives the name through Annotated[T, type_name('Tags')] with T in {Tag, List[Tag], Dict[str, Tag], "
        "Optional[Tag]} used 1-3 times (+ Tag used directly or not) and an unnamed class recursive through such an annotation: $defs must be exactly "
        "the names used more than once / all of them / the recursive one.  "
        "A third enumerated family (288 cases) uses NewTypes of named NewTypes (1-3 levels, with / without a pattern) as mapping key, twice as key, as element and "
        "as key + value: no crash, valid schema, no dangling $ref, a conforming datum validates.  "
        "A small enumerated family covers inherited discriminators (@discriminator on a plain or dataclass base, two dataclass children, "
        "roots Base / a child / a holder of children / List[Base] / Union of the children / Optional[Base] x all_refs x direction): generation does "
        "not raise, the schema is meta-schema valid, every $ref and discriminator mapping target is defined, validating a datum terminates.  "
        "Non-trivial: >= 2 named types and >= 1 shared or recursive.  Distinct = hash(program shape, options).")
ASSUMPTIONS = ["which multiply-nested named types are extracted under all_refs=False depends on traversal order: only the order-independent clauses above are asserted",
               "known findings C06-recursive-aggregate-field and C06-nested-flatten-schema apply here too (listed under C17 ids)"]
BUDGET = {"quick": 700, "thorough": 9000}
SHARDS = {"quick": 8, "thorough": 16}
MIN_NONTRIVIAL = {"quick": 100, "thorough": 2000}
TECHNIQUE = "property-based testing (Hypothesis): generated naming/sharing/recursive programs x schema options; meta-schema validation (jsonschema) + reference-closure invariants"
LEVEL_TEXT = ("Exploration: ~5.5k (quick) / ~140k (thorough) (program, options) cases; each schema is validated against its declared dialect's "
              "meta-schema and checked for reference closure, extraction rules, definitions_schema agreement and name-clash refusal.")
LEVEL_NOTE = "Trusted: jsonschema meta-schemas; the reachability computation over descriptors (vlib/tdcase.py)."

VERSIONS = {"2020-12": "DRAFT_2020_12", "2019-09": "DRAFT_2019_09", "draft-07": "DRAFT_7", "oas30": "OPEN_API_3_0", "oas31": "OPEN_API_3_1"}


@st.composite
def schema_programs(draw, cfg=None, clash_rate=0.08):
    cfg = dict({"max_depth": 3, "fall_back": False, "lit_in_union": False, "unsup": False, "methods": True, "generics": True}, **(cfg or {}))
    g = gen.TypeGen(draw, cfg)
    depth = draw(st.integers(1, cfg["max_depth"]))
    root = g.type(depth)
    # bias to sharing: wrap the root with a second use of one of its named types
    named = [("cls", i) for i, c in enumerate(g.prog["classes"]) if c is not None and i not in g.flattened and not c.get("params")] + \
            [("enum", i) for i in range(len(g.prog["enums"]))] + [("newtype", i) for i in range(len(g.prog["newtypes"]))]
    if named and chance(draw, 0.6):
        kind, i = pick(draw, named)
        again = {"k": kind, "i": i}
        form = pick(draw, ["tuple", "union", "map", "list2"])
        if form == "tuple":
            root = {"k": "tuple", "sp": "Tuple", "items": [root, again]}
        elif form == "union":
            root = {"k": "union", "alts": [root, {"k": "list", "sp": "List", "of": again}]}
        elif form == "map":
            root = {"k": "tuple", "sp": "Tuple", "items": [{"k": "map", "sp": "Dict", "key": {"k": "str"}, "val": again}, root]}
        else:
            root = {"k": "tuple", "sp": "Tuple", "items": [{"k": "list", "sp": "List", "of": again}, {"k": "opt", "of": again}, root]}
    g.prog["root"] = g.nolit(root)
    prog = g.prog
    rec = tdcase.recursive_classes(prog)
    names_used = set()
    for i, cd in enumerate(prog["classes"]):
        r = draw(st.integers(0, 99))
        if cd.get("params"):
            continue  # specialisations of a generic class have no default name (and one given name would clash)
        if r < 15:
            cd["type_name"] = repr(f"Named{i}")
        elif r < 22 and i not in rec and cd["flavor"] != "typeddict":
            cd["type_name"] = "None"
    for i, nt in enumerate(prog["newtypes"]):
        r = draw(st.integers(0, 99))
        if r < 15:
            nt["type_name"] = repr(f"NT{i}")
        elif r < 25:
            nt["type_name"] = "None"
    clash = None
    dcs = [i for i, cd in enumerate(prog["classes"]) if cd["flavor"] == "dataclass" and i not in g.flattened and not cd.get("params")]
    reach = {j for k_, j in tdcase.reachable_named(prog, prog["root"]) if k_ == "cls"}
    dcs = [i for i in dcs if i in reach]
    if len(dcs) >= 2 and chance(draw, clash_rate):
        a, b_ = draw(st.lists(st.sampled_from(dcs), min_size=2, max_size=2, unique=True))
        if prog["classes"][a]["fields"] != prog["classes"][b_]["fields"]:
            prog["classes"][a]["type_name"] = repr("Clash")
            prog["classes"][b_]["type_name"] = repr("Clash")
            clash = [a, b_]
    return prog, clash


@st.composite
def strategy_(draw, tier):
    prog, clash = draw(schema_programs({"max_depth": 3 if tier == "quick" else 4}))
    opts = {
        "all_refs": pick(draw, [None, True, False]),
        "ref_factory": pick(draw, [None, None, "custom"]),
        "version": pick(draw, list(VERSIONS)),
        "with_schema": chance(draw, 0.8),
        "entry": pick(draw, ["deserialization", "serialization"]),
        "additional_properties": chance(draw, 0.2),
        "aliaser": pick(draw, ["id", "id", "camel"]),
    }
    case = {"prog": prog, "opts": opts, "clash": clash}
    # entries of a multi-entry definitions_schema call: the root, named classes of the program and containers of
    # them, each possibly paired with a dynamic conversion between two classes of the program
    cls = [i for i, cd in enumerate(prog["classes"]) if cd is not None]
    dcs = [i for i in cls if prog["classes"][i]["flavor"] == "dataclass"]
    if cls and chance(draw, 0.7):
        entries = []
        for _ in range(draw(st.integers(2, 4))):
            what = pick(draw, ["root", "cls", "list", "opt", "map"])
            i = pick(draw, cls)
            conv = None
            if dcs and chance(draw, 0.45):
                a = pick(draw, dcs)
                b_ = pick(draw, [j for j in cls if j != a] + ["str", "root"])
                conv = [a, b_]
                if chance(draw, 0.7):
                    i = a
            entries.append({"what": what, "i": i, "conv": conv})
        case["defs_entries"] = entries
    return case


def strategy(tier):
    return strategy_(tier)


def describe(case):
    if case.get("disc_family"):
        return disc_source(case) + f"entry={case['entry']} all_refs={case['all_refs']}"
    return tdcase.describe(case)


def custom_ref(name: str) -> str:
    return "http://example.com/schemas/" + name + ".json"


def collect_refs(node, acc=None):
    acc = [] if acc is None else acc
    if isinstance(node, dict):
        for k, v in node.items():
            if k == "$ref" and isinstance(v, str):
                acc.append(v)
            elif k in ("enum", "const", "default", "examples", "example"):
                continue
            else:
                collect_refs(v, acc)
    elif isinstance(node, list):
        for x in node:
            collect_refs(x, acc)
    return acc


def api_kwargs(opts):
    kw = {"additional_properties": bool(opts.get("additional_properties")), "aliaser": build.ALIASERS[opts.get("aliaser", "id")],
          "version": getattr(JsonSchemaVersion, VERSIONS[opts["version"]]), "with_schema": bool(opts.get("with_schema"))}
    if opts.get("all_refs") is not None:
        kw["all_refs"] = opts["all_refs"]
    if opts.get("ref_factory") == "custom":
        kw["ref_factory"] = custom_ref
    return kw


def type_name_of(prog, ref):
    kind, i = ref
    if kind == "cls":
        cd = prog["classes"][i]
        if cd.get("params"):
            return None
        tn = cd.get("type_name")
        if tn == "None":
            return None
        return eval(tn) if tn else cd["name"]
    if kind == "enum":
        # default_type_name gives no name to subclasses of Collection, and str is one: str-mixin enums are unnamed
        return None if prog["enums"][i].get("base") == "str" else prog["enums"][i]["name"]
    nt = prog["newtypes"][i]
    tn = nt.get("type_name")
    if tn == "None":
        return None
    return eval(tn) if tn else nt["name"]


# ---------------------------------------------------------------------------------------
# inherited discriminators: a small enumerated family (base class decorated with @discriminator)
# ---------------------------------------------------------------------------------------

DISC_ROOTS = {"base": "Base", "sub": "Cat", "holder": "Holder", "list_base": "List[Base]", "union": "Union[Cat, Dog]", "opt_base": "Optional[Base]"}


def disc_source(case) -> str:
    base = ["@discriminator('type')"] + (["@dataclass"] if case["base_dataclass"] else []) + ["class Base:"]
    base += ["    owner: str = ''"] if case["base_dataclass"] and case["base_field"] else ["    pass"]
    return "\n".join(base + ["@dataclass", "class Cat(Base):", "    lives: int = 9",
                              "@dataclass", "class Dog(Base):", "    name: str = ''",
                              "@dataclass", "class Holder:", "    pet: Cat", "    other: Optional[Dog] = None",
                              f"ROOT = {DISC_ROOTS[case['root']]}"]) + "\n"


def enumerate_cases(tier):
    for base_dataclass, base_field, root, all_refs, entry in itertools.product(
            (False, True), (False, True), DISC_ROOTS, (None, True, False), ("deserialization", "serialization")):
        if base_field and not base_dataclass:
            continue
        yield {"disc_family": True, "base_dataclass": base_dataclass, "base_field": base_field, "root": root, "all_refs": all_refs, "entry": entry}
    yield from ann_cases()
    yield from chain_cases()


def evaluate_disc(case, ctx):
    ctx.count()
    src = build.PRELUDE + disc_source(case)
    try:
        b = build.load({"future": True, "enums": [], "newtypes": [], "classes": []}, source=src)
    except Exception as e:
        raise HarnessError(f"discriminator program does not build: {e!r}\n{src}")
    sig0 = {"family": "inherited_discriminator", "base_dataclass": case["base_dataclass"], "root": case["root"], "all_refs": str(case["all_refs"])}
    try:
        fn = deserialization_schema if case["entry"] == "deserialization" else serialization_schema
        kw = {} if case["all_refs"] is None else {"all_refs": case["all_refs"]}
        try:
            schema = json.loads(json.dumps(fn(b.root, **kw)))
        except BaseException as e:
            ctx.violation({"kind": "crash", "exc": type(e).__name__, **sig0}, case, f"{type(e).__name__}: {e}\n{disc_source(case)}")
            return
        bad = jsoracle.check_schema(schema, "2020-12")
        if bad:
            ctx.violation({"kind": "invalid_against_declared_dialect", **sig0}, case, f"{bad}\n{tdcase.compact(schema, 700)}")
            return
        defs = schema.get("$defs", {})
        refs = collect_refs(schema)
        for d_ in defs.values():  # discriminator mappings point to definitions too
            refs += [v for v in (d_.get("discriminator", {}).get("mapping") or {}).values()]
        refs += [v for v in (schema.get("discriminator", {}).get("mapping") or {}).values()]
        dangling = sorted({r for r in refs if not (r.startswith("#/$defs/") and r[len("#/$defs/"):] in defs)})
        if dangling:
            ctx.violation({"kind": "dangling_ref", **sig0}, case, f"{dangling} not in $defs {sorted(defs)}\n{tdcase.compact(schema, 900)}")
            return
        # the schema must be usable: validating a datum terminates (no definition referring to itself unguarded)
        data = {"base": {"type": "Cat", "lives": 1}, "sub": {"lives": 1, "type": "Cat"}, "holder": {"pet": {"lives": 1, "type": "Cat"}},
                "list_base": [{"type": "Dog"}], "union": {"type": "Dog", "name": "a"}, "opt_base": None}[case["root"]]
        try:
            jsoracle.validator(schema).is_valid(data)
        except RecursionError:
            ctx.violation({"kind": "validation_does_not_terminate", **sig0}, case, f"a definition refers to itself: {tdcase.compact(schema, 900)}")
            return
        ctx.nontriv(["disc_family", case])
        ctx.sample({"program": disc_source(case), "entry": case["entry"], "all_refs": case["all_refs"], "definitions": sorted(defs)})
        ctx.h("disc_family")
    finally:
        b.close()


ANN_INNER = {"list": "List[Tag]", "map": "Dict[str, Tag]", "opt": "Optional[Tag]", "bare": "Tag"}


def ann_source(case) -> str:
    """A name given through Annotated[T, type_name('Tags')] (json_schema.md), used `uses` times; T contains a named class
    used once (hence inlined when all_refs is off) - or, in the recursive variant, an unnamed class which refers to itself
    through the named annotation only."""
    if case["rec"]:
        lines = ["@type_name(None)", "@dataclass", "class Node:", "    v: int = 0",
                 "    children: Annotated[List['Node'], type_name('Nodes')] = field(default_factory=list)"]
        lines += ["    more: Annotated[List['Node'], type_name('Nodes')] = field(default_factory=list)"] if case["uses"] > 1 else []
        lines += ["ROOT = Node"]
        return "\n".join(lines) + "\n"
    lines = ["@dataclass", "class Tag:", "    v: int = 0", "", f"Tags = Annotated[{ANN_INNER[case['inner']]}, type_name('Tags')]", "",
             "@dataclass", "class Post:"]
    lines += [f"    t{i}: Tags" for i in range(case["uses"])]
    if case["direct"]:
        lines.append("    direct: Tag")
    lines += ["ROOT = Post"]
    return "\n".join(lines) + "\n"


def ann_cases():
    for inner, uses, direct, all_refs, entry in itertools.product(ANN_INNER, (1, 2, 3), (False, True), (None, True, False), ("deserialization", "serialization")):
        yield {"ann_family": True, "rec": False, "inner": inner, "uses": uses, "direct": direct, "all_refs": all_refs, "entry": entry}
    for uses, all_refs, entry in itertools.product((1, 2), (None, True, False), ("deserialization", "serialization")):
        yield {"ann_family": True, "rec": True, "inner": "list", "uses": uses, "direct": False, "all_refs": all_refs, "entry": entry}


def evaluate_ann(case, ctx):
    ctx.count()
    src = build.PRELUDE + ann_source(case)
    try:
        b = build.load({"future": False, "enums": [], "newtypes": [], "classes": []}, source=src)
    except Exception as e:
        raise HarnessError(f"annotated-name program does not build: {e!r}\n{src}")
    sig0 = {"family": "annotated_type_name", "rec": case["rec"], "inner": case["inner"], "uses": min(case["uses"], 2), "direct": case["direct"],
            "all_refs": str(case["all_refs"])}
    try:
        fn = deserialization_schema if case["entry"] == "deserialization" else serialization_schema
        kw = {} if case["all_refs"] is None else {"all_refs": case["all_refs"]}
        try:
            schema = json.loads(json.dumps(fn(b.root, **kw)))
        except BaseException as e:
            ctx.violation({"kind": "crash", "exc": type(e).__name__, **sig0}, case, f"{type(e).__name__}: {e}\n{ann_source(case)}")
            return
        bad = jsoracle.check_schema(schema, "2020-12")
        if bad:
            ctx.violation({"kind": "invalid_against_declared_dialect", **sig0}, case, f"{bad}\n{tdcase.compact(schema, 700)}")
            return
        defs = schema.get("$defs", {})
        dangling = sorted({r for r in collect_refs(schema) if not (r.startswith("#/$defs/") and r[len("#/$defs/"):] in defs)})
        if dangling:
            ctx.violation({"kind": "dangling_ref", **sig0}, case, f"{dangling} not in $defs {sorted(defs)}\n{tdcase.compact(schema, 900)}")
            return
        if case["rec"]:
            expected = {"Nodes"}  # the recursion goes through the named annotation, whatever all_refs is
        elif case["all_refs"]:
            expected = {"Tags", "Tag", "Post"}
        else:
            expected = ({"Tags"} if case["uses"] > 1 else set()) | ({"Tag"} if case["direct"] else set())
            # Tag is used once inside the definition of Tags (or once inline) and once directly when `direct`
        got = set(defs)
        if case["all_refs"] and not case["rec"]:
            got |= {"Post"} if schema.get("$ref") == "#/$defs/Post" or "Post" in defs else set()
        if got != expected:
            ctx.violation({"kind": "definitions_differ", "extra": sorted(got - expected), "missing": sorted(expected - got), **sig0}, case,
                          f"$defs {sorted(defs)}, expected {sorted(expected)}\n{ann_source(case)}\n{tdcase.compact(schema, 900)}")
            return
        ctx.nontriv(["ann_family", case])
        ctx.sample({"program": ann_source(case), "entry": case["entry"], "all_refs": case["all_refs"], "definitions": sorted(defs)})
        ctx.h("ann_family")
    finally:
        b.close()


def chain_source(case) -> str:
    """NewTypes of NewTypes (named at every level) as mapping key / element / field type."""
    lines = ["N1 = NewType('N1', str)"]
    if case["pattern"]:
        lines.append("schema(pattern='^a')(N1)")
    lines += ["N2 = NewType('N2', N1)", "N3 = NewType('N3', N2)"]
    top = {1: "N1", 2: "N2", 3: "N3"}[case["depth"]]
    lines.append("ROOT = " + {"key": f"Dict[{top}, int]", "list": f"List[{top}]", "key_twice": f"Tuple[Dict[{top}, int], Dict[{top}, str]]",
                              "field": f"Dict[str, Dict[{top}, {top}]]"}[case["place"]])
    return "\n".join(lines) + "\n"


def chain_cases():
    for depth, place, pattern, all_refs, entry in itertools.product((1, 2, 3), ("key", "list", "key_twice", "field"), (False, True), (None, True, False),
                                                                   ("deserialization", "serialization")):
        yield {"chain_family": True, "depth": depth, "place": place, "pattern": pattern, "all_refs": all_refs, "entry": entry}


def evaluate_chain(case, ctx):
    ctx.count()
    src = build.PRELUDE + chain_source(case)
    try:
        b = build.load({"future": False, "enums": [], "newtypes": [], "classes": []}, source=src)
    except Exception as e:
        raise HarnessError(f"NewType-chain program does not build: {e!r}\n{src}")
    sig0 = {"family": "newtype_chain", "depth": case["depth"], "place": case["place"], "all_refs": str(case["all_refs"])}
    try:
        fn = deserialization_schema if case["entry"] == "deserialization" else serialization_schema
        kw = {} if case["all_refs"] is None else {"all_refs": case["all_refs"]}
        try:
            schema = json.loads(json.dumps(fn(b.root, **kw)))
        except BaseException as e:
            ctx.violation({"kind": "crash", "exc": type(e).__name__, **sig0}, case, f"{type(e).__name__}: {e}\n{chain_source(case)}")
            return
        bad = jsoracle.check_schema(schema, "2020-12")
        if bad:
            ctx.violation({"kind": "invalid_against_declared_dialect", **sig0}, case, f"{bad}\n{tdcase.compact(schema, 700)}")
            return
        defs = schema.get("$defs", {})
        dangling = sorted({r for r in collect_refs(schema) if not (r.startswith("#/$defs/") and r[len("#/$defs/"):] in defs)})
        if dangling:
            ctx.violation({"kind": "dangling_ref", **sig0}, case, f"{dangling} not in $defs {sorted(defs)}\n{tdcase.compact(schema, 900)}")
            return
        good = {"key": {"ab": 1}, "list": ["ab"], "key_twice": [{"ab": 1}, {"ab": "x"}], "field": {"k": {"ab": "ab"}}}[case["place"]]
        v = jsoracle.validator(schema)
        if not v.is_valid(good):
            ctx.violation({"kind": "conforming_datum_rejected_by_schema", **sig0}, case, f"{good!r} against {tdcase.compact(schema, 900)}")
            return
        ctx.nontriv(["chain_family", case])
        ctx.h("chain_family")
    finally:
        b.close()


def evaluate(case, ctx):
    if case.get("disc_family"):
        return evaluate_disc(case, ctx)
    if case.get("ann_family"):
        return evaluate_ann(case, ctx)
    if case.get("chain_family"):
        return evaluate_chain(case, ctx)
    prog, opts = case["prog"], case["opts"]
    ctx.count()
    try:
        b = build.load(prog)
    except Exception as e:
        raise HarnessError(f"generated program does not build: {e!r}\n{build.render(prog)}")
    try:
        _evaluate(case, ctx, b, prog, opts)
    finally:
        b.close()


_features = tdcase.schema_features


def _evaluate(case, ctx, b, prog, opts):
    kw = api_kwargs(opts)
    fn = deserialization_schema if opts["entry"] == "deserialization" else serialization_schema
    tp = b.root
    clash = case.get("clash")
    try:
        schema = fn(tp, **kw)
    except RecursionError as e:
        ctx.violation({"kind": "non_termination", "exc": "RecursionError", **_features(prog)}, case, "RecursionError in schema generation")
        return
    except ValueError as e:
        if clash and "share same reference" in str(e):
            ctx.h("clash_refused")
            ctx.nontriv(["clash", tdcase.shape(prog["root"], prog), opts])
            return
        ctx.violation({"kind": "crash", "exc": "ValueError", "msg": re.sub(r"[A-Za-z_]*\d+[A-Za-z_0-9]*", "N", str(e))[:60]}, case, repr(e))
        return
    except Exception as e:
        ctx.violation({"kind": "crash", "exc": type(e).__name__, "msg": re.sub(r"[A-Za-z_]*\d+[A-Za-z_0-9]*", "N", str(e))[:60], **_features(prog)}, case, repr(e))
        return
    if clash and not all(("cls", i) in tdcase.reachable_named(prog, prog["root"], opts["entry"]) for i in clash):
        clash = None  # one of the two is not visible in this direction (skipped field)
    if clash:
        names = {type_name_of(prog, ("cls", i)) for i in clash}
        ctx.violation({"kind": "clash_merged"}, case, f"two distinct classes named {names} produced a schema: {tdcase.compact(schema, 600)}")
        return
    version = opts["version"]
    try:
        schema = json.loads(json.dumps(schema))
    except Exception as e:
        ctx.violation({"kind": "schema_not_json", "exc": type(e).__name__}, case, repr(e))
        return
    # 1. meta-schema of the declared dialect
    declared = schema.get("$schema") if isinstance(schema, dict) else None
    if opts["with_schema"] and version in ("2020-12", "2019-09", "draft-07") and declared is None:
        ctx.violation({"kind": "missing_$schema", "version": version}, case, "with_schema=True but no $schema")
    dialect = None
    if declared:
        dialect = {"http://json-schema.org/draft/2020-12/schema#": "2020-12", "https://json-schema.org/draft/2020-12/schema": "2020-12",
                   "https://json-schema.org/draft/2019-09/schema": "2019-09", "http://json-schema.org/draft/2019-09/schema#": "2019-09",
                   "http://json-schema.org/draft-07/schema#": "draft-07"}.get(declared)
        if dialect is None:
            ctx.violation({"kind": "unknown_$schema", "value": declared}, case, declared)
    elif version == "oas31":
        dialect = "2020-12"
    elif version in ("2020-12", "2019-09", "draft-07"):
        dialect = version
    if dialect:
        to_check = schema
        if opts.get("ref_factory") == "custom" or version.startswith("oas"):
            to_check = schema  # meta-schema validity does not need refs to resolve
        bad = jsoracle.check_schema(to_check, dialect)
        if bad:
            ctx.violation({"kind": "invalid_against_declared_dialect", "version": version, "declared": dialect, "msg": re.sub(r"\d+", "N", bad)[-45:]}, case,
                          f"{bad}\n{tdcase.compact(schema, 900)}")
    # 2. reference closure
    defs_key = "$defs" if "$defs" in schema else "definitions" if "definitions" in schema else None
    inline_defs = schema.get(defs_key, {}) if defs_key else {}
    refs = collect_refs(schema)
    prefix = {"2020-12": "#/$defs/", "2019-09": "#/$defs/", "draft-07": "#/definitions/", "oas30": "#/components/schemas/", "oas31": "#/components/schemas/"}[version]
    external = opts.get("ref_factory") == "custom" or version.startswith("oas")
    ext_defs = None
    names = []
    for r in refs:
        if opts.get("ref_factory") == "custom":
            m = re.match(r"^http://example.com/schemas/(.*)\.json$", r)
            name = m.group(1) if m else None
        else:
            name = r[len(prefix):] if r.startswith(prefix) else None
        if name is None:
            ctx.violation({"kind": "ref_without_prefix", "version": version, "custom": opts.get("ref_factory") == "custom"}, case, f"$ref {r!r} (expected prefix {prefix!r})")
            return
        names.append(name)
    if external:
        try:
            dkw = {k: v for k, v in kw.items() if k not in ("with_schema",)}
            ext_defs = definitions_schema(**{opts["entry"]: [tp]}, **dkw)
            ext_defs = json.loads(json.dumps(ext_defs))
        except RecursionError:
            ctx.violation({"kind": "non_termination", "exc": "RecursionError", **_features(prog)}, case, "RecursionError in definitions_schema")
            return
        except Exception as e:
            ctx.violation({"kind": "definitions_schema_crash", "exc": type(e).__name__}, case, repr(e))
            return
    known = set(ext_defs) if external else set(inline_defs)
    # refs inside definitions too
    for dname, dschema in (ext_defs or {}).items():
        for r in collect_refs(dschema):
            if opts.get("ref_factory") == "custom":
                m = re.match(r"^http://example.com/schemas/(.*)\.json$", r)
                names.append(m.group(1) if m else "<bad:%s>" % r)
            else:
                names.append(r[len(prefix):] if r.startswith(prefix) else "<bad:%s>" % r)
    dangling = sorted(set(names) - known)
    if dangling:
        ctx.violation({"kind": "dangling_ref", "version": version, "external": external}, case,
                      f"$ref to {dangling} but definitions are {sorted(known)}\n{tdcase.compact(schema, 700)}")
    # 3. extraction rules
    reach = tdcase.reachable_named(prog, prog["root"], opts["entry"])
    occ = occurrences(prog, prog["root"], opts["entry"])
    expected_all = {type_name_of(prog, r) for r in reach} - {None}
    eff_all_refs = opts["all_refs"] if opts["all_refs"] is not None else version.startswith("oas")
    if eff_all_refs:
        missing = sorted(expected_all - known)
        if missing and not _features(prog)["nested_flatten"]:
            ctx.violation({"kind": "named_type_not_extracted", "all_refs": True}, case, f"named types {missing} are not definitions ({sorted(known)})")
    else:
        counts = {}
        for nme in names:
            counts[nme] = counts.get(nme, 0) + 1
        graph = {d: set() for d in known}
        src_defs = ext_defs if external else inline_defs
        for dname, dschema in src_defs.items():
            for r in collect_refs(dschema):
                graph[dname].add(r.split("/")[-1] if opts.get("ref_factory") != "custom" else r.rsplit("/", 1)[-1][:-5])
        for dname in known:
            if counts.get(dname, 0) >= 2 or _on_cycle(graph, dname) or occ.get(dname, 0) >= 2:
                continue  # (a mapping key position mentions the type without emitting a $ref)
            ctx.violation({"kind": "single_use_type_extracted", "count": counts.get(dname, 0)}, case,
                          f"definition {dname!r} is referenced {counts.get(dname, 0)} time(s) and is not recursive (all_refs=False)\n{tdcase.compact(schema, 700)}")
            break
    # 4. definitions_schema agrees with the inline definitions
    if not external and defs_key:
        try:
            dkw = {k: v for k, v in kw.items() if k not in ("with_schema",)}
            ds = json.loads(json.dumps(definitions_schema(**{opts["entry"]: [tp]}, **dkw)))
            if ds != inline_defs:
                ctx.violation({"kind": "definitions_schema_differs"}, case,
                              f"definitions_schema keys {sorted(ds)} vs inline {sorted(inline_defs)}; differing: {[k for k in ds if ds.get(k) != inline_defs.get(k)][:4]}")
        except Exception as e:
            ctx.violation({"kind": "definitions_schema_crash", "exc": type(e).__name__}, case, repr(e))
    # 5. definitions_schema over several entries (with dynamic conversions): same definitions as the union of the
    #    entries' inline $defs, closed under $ref, independent of the order of the entries
    if case.get("defs_entries") and not case.get("clash"):
        _multi_entry(case, ctx, b, prog, opts)
    rec = tdcase.recursive_classes(prog)
    shared = len(names) != len(set(names))
    if len(reach) >= 2 and (shared or rec):
        ctx.nontriv([tdcase.shape(prog["root"], prog), opts])
        ctx.sample({"type": b.source.split("import uuid, datetime, decimal, pathlib, ipaddress")[-1].strip()[-500:], "options": opts,
                    "definitions": sorted(known), "refs": sorted(set(names))})
    ctx.h("version:" + version)
    ctx.h("all_refs:%s" % opts["all_refs"])


def _ident(x):
    return x


def _union_with_both(t, a, b) -> bool:
    if t["k"] in ("union", "opt"):
        idx = {x["i"] for x in M.union_alts(t) if x["k"] == "cls"}
        if a in idx and b in idx:
            return True
    return any(_union_with_both(t[key], a, b) for key in ("of", "key", "val") if isinstance(t.get(key), dict)) or \
        any(_union_with_both(x, a, b) for key in ("alts", "items", "args") for x in t.get(key, []))


def _multi_entry(case, ctx, b, prog, opts):
    from apischema.conversions import Conversion

    def cls_of(i):
        return getattr(b.module, prog["classes"][i]["name"])

    entries = []
    for e in case["defs_entries"]:
        k = cls_of(e["i"])
        tp = {"root": b.root, "cls": k, "list": List[k], "opt": Optional[k], "map": Dict[str, k]}[e["what"]]
        conv = None
        if e["conv"]:
            a = cls_of(e["conv"][0])
            c = str if e["conv"][1] == "str" else b.root if e["conv"][1] == "root" else cls_of(e["conv"][1])
            conv = Conversion(_ident, source=a, target=c) if opts["entry"] == "serialization" else Conversion(_ident, source=c, target=a)
        entries.append((tp, conv))
    fn = deserialization_schema if opts["entry"] == "deserialization" else serialization_schema
    base = {"additional_properties": bool(opts.get("additional_properties")), "aliaser": build.ALIASERS[opts.get("aliaser", "id")]}
    union = {}
    try:
        for tp, conv in entries:
            inline = json.loads(json.dumps(fn(tp, conversion=conv, all_refs=True, **base))).get("$defs", {})
            for name, d in inline.items():
                if name in union and union[name] != d:
                    ctx.h("multi_entry:entries_disagree")
                    return  # the entries do not agree on that name (conversion seen from two contexts): no single expected answer
                union[name] = d
    except Exception:
        ctx.h("multi_entry:inline_raises")
        return

    def call(es, **kw):
        arg = [tp if conv is None else (tp, conv) for tp, conv in es]
        return json.loads(json.dumps(definitions_schema(**{opts["entry"]: arg}, **base, **kw)))

    try:
        got = call(entries, all_refs=True)
    except Exception as e:
        ctx.violation({"kind": "multi_entry_definitions_crash", "exc": type(e).__name__, **_features(prog)}, case, f"every entry has an inline schema but definitions_schema raises {e!r}")
        return
    has_conv = any(conv is not None for _, conv in entries)
    ctx.h("multi_entry:conv" if has_conv else "multi_entry:plain")
    if got != union:
        # feature of a known finding: a union holding both classes of a dynamic conversion collapses to one named type
        collapses = any(e["conv"] and e["what"] == "root" and isinstance(e["conv"][1], int) and
                        _union_with_both(prog["root"], e["conv"][0], e["conv"][1]) for e in case["defs_entries"])
        ctx.violation({"kind": "multi_entry_definitions_differ", "conv": has_conv, "union_collapsed_by_conversion": collapses}, case,
                      f"entries {case['defs_entries']}: definitions_schema(all_refs=True) has {sorted(got)}, the union of the inline $defs of the entries has {sorted(union)}; "
                      f"differing bodies: {[k for k in got if k in union and got[k] != union[k]][:4]}")
        return
    dangling = sorted({r[len("#/$defs/"):] for d in got.values() for r in collect_refs(d)} - set(got))
    if dangling:
        ctx.violation({"kind": "multi_entry_dangling_ref", "conv": has_conv}, case, f"definitions {sorted(got)} reference {dangling}")
        return
    try:
        kw = {} if opts.get("all_refs") is None else {"all_refs": opts["all_refs"]}
        fwd, bwd = call(entries, **kw), call(entries[::-1], **kw)
    except Exception as e:
        ctx.violation({"kind": "multi_entry_definitions_crash", "exc": type(e).__name__, **_features(prog)}, case, repr(e))
        return
    if fwd != bwd:
        ctx.violation({"kind": "multi_entry_order_dependent", "conv": has_conv}, case,
                      f"entries {case['defs_entries']} (all_refs={opts.get('all_refs')}): {sorted(fwd)} in the given order, {sorted(bwd)} reversed")


def occurrences(prog, t, direction):
    """Uses of each type name from the root: a named class body is expanded once, an unnamed
    (type_name(None) or generic specialisation) class is inlined, hence expanded - with its type arguments
    substituted - at every occurrence."""
    counts, expanded = {}, set()

    def bump(ref):
        name = type_name_of(prog, ref)
        if name is not None:
            counts[name] = counts.get(name, 0) + 1
        return name

    def visit(tt, depth=0):
        if depth > 30:
            return
        k = tt["k"]
        if k == "cls":
            ref = ("cls", tt["i"])
            name = bump(ref)
            if name is not None:
                if ref in expanded:
                    return
                expanded.add(ref)
            cd = prog["classes"][tt["i"]]
            if tt.get("args"):
                cd = M.specialize(cd, tt["args"])
            for f in tdcase._dir_fields(cd, direction):
                visit(f["t"], depth + 1)
            return
        if k == "enum":
            bump(("enum", tt["i"]))
        elif k == "newtype":
            bump(("newtype", tt["i"]))
            visit(prog["newtypes"][tt["i"]]["of"], depth + 1)
            return
        for key in ("of", "key", "val"):
            if isinstance(tt.get(key), dict):
                visit(tt[key], depth + 1)
        for key in ("alts", "items"):
            for x in tt.get(key, []):
                visit(x, depth + 1)

    visit(t)
    return counts


def _on_cycle(graph, start) -> bool:
    seen, todo = set(), list(graph.get(start, ()))
    while todo:
        x = todo.pop()
        if x == start:
            return True
        if x in seen:
            continue
        seen.add(x)
        todo.extend(graph.get(x, ()))
    return False
