#!/venv/bin/python
"""Single entry point of the verification machinery.

    check.py <ID> [--tier quick|thorough] [--replay FILE] [--shards N] [--examples N]

exit 0  property held on everything explored (KNOWN-FINDING lines possible)
exit 1  at least one line  VIOLATION property=<ID> replay=<path>
exit 2  harness error / inconclusive
"""
import os
import sys

HERE = os.path.dirname(os.path.abspath(__file__))


def _reexec():
    if os.environ.get("PYTHONHASHSEED") != "0" or os.environ.get("APISCHEMA_VERIF") != "1":
        env = dict(os.environ, PYTHONHASHSEED="0", APISCHEMA_VERIF="1")
        os.execve(sys.executable, [sys.executable, os.path.abspath(__file__)] + sys.argv[1:], env)


def main() -> int:
    _reexec()
    os.chdir(HERE)
    sys.path.insert(0, HERE)
    import vlib.env  # noqa: F401  (sys.path: /repo first, then .deps)
    from vlib import runner

    return runner.main(sys.argv[1:])


if __name__ == "__main__":
    try:
        code = main()
    except SystemExit:
        raise
    except BaseException:  # harness error
        import traceback

        traceback.print_exc()
        code = 2
    sys.exit(code)
