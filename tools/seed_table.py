#!/venv/bin/python
"""Prints the table of DESIGN.md section 9.8 from seeded/*/meta.json and last_run.json (seed 1)."""
import glob
import json
import os

VERIF = os.path.dirname(os.path.dirname(os.path.abspath(__file__)))
print("| id | change | needs | quick checks run against it |")
print("|---|---|---|---|")
caught = own = 0
others = []
for d in sorted(glob.glob(os.path.join(VERIF, "seeded", "*"))):
    sid = os.path.basename(d)
    if not os.path.exists(os.path.join(d, "patch.diff")):
        continue
    meta = json.load(open(os.path.join(d, "meta.json")))
    run = json.load(open(os.path.join(d, "last_run.json"))) if os.path.exists(os.path.join(d, "last_run.json")) else {"checks": {}}
    cells = []
    for c, r in run["checks"].items():
        cells.append(f"{c} **caught**" if r["exit"] == 1 else f"{c} quiet" if r["exit"] == 0 else f"{c} exit {r['exit']}")
    hit = [c for c, r in run["checks"].items() if r["exit"] == 1]
    caught += bool(hit)
    if meta["property"] in hit:
        own += 1
    elif hit:
        others.append(sid)
    esc = lambda s: s.replace("|", "\\|")
    print(f"| {sid} | {esc(meta['change'])} | {esc(meta['needs'])} | {'; '.join(cells)} |")
print()
print(f"<!-- {caught} caught, {own} by the own check, others: {others} -->")
