#!/bin/bash
# harvest_seed.sh <PROP> <seed-id> [worktree]: take the uncommitted change + demo of /tmp/wt_<PROP> into
# seeded/<seed-id>/ and confirm it in a fresh scratch worktree (tests pass with it, demo fails with it
# and passes without it).
set -u
P=$1; SID=$2; WT=${3:-/tmp/wt_$P}; D=/verif/seeded/$SID
mkdir -p $D
git -C $WT diff -- apischema > $D/patch.diff
cp $WT/demo_$P.py $D/demo.py 2>/dev/null || { echo "no demo"; exit 2; }
[ -s $D/patch.diff ] || { echo "empty patch"; exit 2; }
V=/tmp/verify_$SID
git -C /repo worktree add -q $V HEAD || exit 2
cp $D/demo.py $V/demo.py
( cd $V && /venv/bin/python demo.py >/dev/null 2>&1; echo "demo_without_change_exit=$?" )
git -C $V apply $D/patch.diff || { echo "patch does not apply"; git -C /repo worktree remove --force $V; exit 2; }
( cd $V && /venv/bin/python -m pytest -q -p no:cacheprovider 2>&1 | tail -1 | sed 's/^/tests_with_change: /' )
( cd $V && /venv/bin/python demo.py >/dev/null 2>&1; echo "demo_with_change_exit=$?" )
git -C /repo worktree remove --force $V
wc -l $D/patch.diff
