#!/bin/bash
# Runs every registered check in the thorough tier, one after the other (for `vp run`: a long background sweep).
#   tools/thorough_all.sh [SHARDS] [CHECK ...]
# Prints one summary line per check and the violation blocks; evidence written by these runs is NOT the
# committed evidence (that comes from tools/run_all.sh in /verif against /repo).
cd "$(dirname "$0")/.."
shards=${1:-8}; shift
ids=${*:-$(/venv/bin/python -c "import json;print(' '.join(c['property_id'] for c in json.load(open('MANIFEST.json'))['checks']))")}
rc=0
for p in $ids; do
  start=$(date +%s)
  out=$(VERIF_SEED=${VERIF_SEED:-1} /venv/bin/python check.py $p --tier thorough --shards $shards 2>&1); code=$?
  echo "[$code] $(echo "$out" | grep -v '^KNOWN-FINDING' | tail -1) ($(( $(date +%s) - start ))s)"
  if [ $code -ne 0 ]; then rc=1; echo "$out" | grep -v "^KNOWN-FINDING" | grep -A4 "^VIOLATION\|INCONCLUSIVE\|HARNESS" | cut -c1-600 | head -120; fi
done
exit $rc
