#!/venv/bin/python
"""Runs the registered quick checks against a seeded change of wyfo/apischema.

    tools/seeded.py <seed-id> [CHECK ...]      e.g. tools/seeded.py C01-a C01 C06 C13
    tools/seeded.py --all

For each seeded/<id>/patch.diff: `git -C /repo apply`, pinned tests (must still pass), the demo
(must fail), the listed checks (default: meta.json "expected_checks", else the property's own
check), then `git -C /repo checkout -- .` whatever happened.  Prints one line per check and
stores the outcome in seeded/<id>/last_run.json (VERIF_SEED=1, the default) or last_run_seed<N>.json (not in meta.json,
which is hand-written).
"""
import json
import os
import subprocess
import sys
import time

VERIF = os.path.dirname(os.path.dirname(os.path.abspath(__file__)))
REPO = "/repo"
PY = "/venv/bin/python"


def sh(cmd, cwd=None, timeout=1800, env=None):
    p = subprocess.run(cmd, cwd=cwd, shell=isinstance(cmd, str), capture_output=True, text=True, timeout=timeout, env=env)
    return p.returncode, p.stdout + p.stderr


def clean_repo():
    code, out = sh("git status --porcelain", cwd=REPO)
    return out.strip() == ""


def run_seed(sid, checks=None, tier="quick"):
    d = os.path.join(VERIF, "seeded", sid)
    meta = json.load(open(os.path.join(d, "meta.json")))
    checks = checks or meta.get("expected_checks") or [meta["property"]]
    if not clean_repo():
        print("refusing: /repo working tree is not clean", file=sys.stderr)
        return 2
    result = {"seed": sid, "at": time.strftime("%Y-%m-%d %H:%M:%S"), "checks": {}}
    code, out = sh(["git", "-C", REPO, "apply", os.path.join(d, "patch.diff")])
    if code != 0:
        print(f"{sid}: patch does not apply: {out[:300]}")
        return 2
    try:
        code, out = sh(f"{PY} -m pytest -q -p no:cacheprovider -x", cwd=REPO)
        result["pinned_tests"] = out.strip().splitlines()[-1] if out.strip() else ""
        print(f"{sid}: pinned tests with the change: {result['pinned_tests']}")
        demo = meta.get("demo")
        if demo:
            code, out = sh([PY, os.path.join(d, demo)], cwd=REPO)
            result["demo_exit_with_change"] = code
            print(f"{sid}: demo exit status with the change: {code}")
        for c in checks:
            t0 = time.time()
            env = dict(os.environ, VERIF_SEED=os.environ.get("VERIF_SEED", "1"))
            code, out = sh([PY, "check.py", c, "--tier", tier, "--no-shrink"], cwd=VERIF, env=env)
            viol = [line for line in out.splitlines() if line.startswith("VIOLATION")]
            sigs = [line.strip() for line in out.splitlines() if line.strip().startswith("signature:")]
            result["checks"][c] = {"exit": code, "violations": len(viol), "signatures": sigs[:5], "wall_s": round(time.time() - t0, 1)}
            print(f"{sid}: {c} {tier}: exit {code}, {len(viol)} VIOLATION line(s) in {time.time() - t0:.0f}s  {sigs[0][:160] if sigs else ''}")
    finally:
        sh(["git", "-C", REPO, "checkout", "--", "."])
        for line in sh("git status --porcelain", cwd=REPO)[1].splitlines():
            if line.startswith("??"):
                path = os.path.join(REPO, line[3:].strip())
                if os.path.isfile(path) and "/apischema/" in path:
                    os.remove(path)
    vseed = os.environ.get("VERIF_SEED", "1")
    result["verif_seed"] = int(vseed)
    json.dump(result, open(os.path.join(d, "last_run.json" if vseed == "1" else f"last_run_seed{vseed}.json"), "w"), indent=1)
    caught = any(v["exit"] == 1 for v in result["checks"].values())
    print(f"{sid}: {'CAUGHT' if caught else 'MISSED'}")
    return 0 if caught else 1


def main(argv):
    if not argv:
        print(__doc__)
        return 2
    tier = "quick"
    if "--thorough" in argv:
        argv.remove("--thorough")
        tier = "thorough"
    if argv[0] == "--all":
        rc = 0
        for sid in sorted(os.listdir(os.path.join(VERIF, "seeded"))):
            if os.path.exists(os.path.join(VERIF, "seeded", sid, "patch.diff")):
                rc |= run_seed(sid, tier=tier)
        return rc
    return run_seed(argv[0], argv[1:] or None, tier=tier)


if __name__ == "__main__":
    sys.exit(main(sys.argv[1:]))
