#!/venv/bin/python
"""Regenerates MANIFEST.json from the property modules present in props/ (claims) and from
tools/not_applicable.json (reasons for unclaimed properties)."""
import importlib, json, os, sys, subprocess
HERE = os.path.dirname(os.path.dirname(os.path.abspath(__file__)))
sys.path.insert(0, HERE)
os.chdir(HERE)
import vlib.env  # noqa
ALL = ["C%02d" % i for i in range(1, 21)]
na_reasons = json.load(open("tools/not_applicable.json")) if os.path.exists("tools/not_applicable.json") else {}
checks, na = [], []
for pid in ALL:
    path = f"props/{pid.lower()}.py"
    if not os.path.exists(path) or pid in na_reasons:
        na.append({"property_id": pid, "reason": na_reasons.get(pid, "check not built yet (work in progress, see DESIGN.md section 8)")})
        continue
    mod = importlib.import_module(f"props.{pid.lower()}")
    checks.append({
        "property_id": pid,
        "quick_cmd": f"/venv/bin/python check.py {pid} --tier quick",
        "thorough_cmd": f"/venv/bin/python check.py {pid} --tier thorough",
        "evidence_file": f"evidence/{pid}.json",
        "replay_cmd_template": f"/venv/bin/python check.py {pid} --replay {{path}}",
        "engine": "hypothesis",
        "level_claimed": {"category": "exploration", "text": mod.LEVEL_TEXT, "design_ref": f"DESIGN.md section 2, {pid}"},
        "level_note": mod.LEVEL_NOTE,
        "technique": mod.TECHNIQUE,
    })
hooks_commits = []
manifest = {
    "version": 1,
    "setup_cmd": "/venv/bin/python setup_deps.py",
    "hooks": {
        "guard": "APISCHEMA_VERIF",
        "enable": "env APISCHEMA_VERIF=1 is set by check.py; no source hook is needed (instrumentation is done by monkey-patching from the harness)",
        "baseline_off_cmd": "cd /repo && /venv/bin/python -m pytest -q -p no:cacheprovider",
        "source_commits": hooks_commits,
        "add_only": True,
    },
    "engines": [{"name": "hypothesis", "path": "vlib/runner.py", "serves_properties": [c["property_id"] for c in checks],
                 "kind_free_text": "Hypothesis-driven generated programs/inputs/histories with explicit oracles; sharded over processes; collect-then-shrink"},
                {"name": "atheris", "path": "vlib/fuzz_target.py",
                 "serves_properties": [c["property_id"] for c in checks if c["property_id"] not in ("C09", "C10", "C16")],
                 "kind_free_text": "thorough tier only: libFuzzer (atheris) mutating the buffer the same Hypothesis strategy draws from, branch coverage of the "
                                   "apischema package as feedback, same evaluate() oracle; 8 fresh interpreters per check, results merged with the Hypothesis shards"}],
    "checks": checks,
    "notes": "All checks run /venv/bin/python against the working tree of /repo (sys.path first). Known findings and fixed defects: known_findings.json.",
    "not_applicable": na,
}
json.dump(manifest, open("MANIFEST.json", "w"), indent=1)
sys.path.insert(0, ".deps")
import jsonschema
jsonschema.validate(manifest, json.load(open("/root/.vp/MANIFEST.schema.json")))
print("MANIFEST.json written:", len(checks), "checks,", len(na), "not applicable")
