#!/bin/bash
# Runs every registered quick check (default seed/tier, as `vp check` does) and prints a summary.
cd "$(dirname "$0")/.."
ids=$(/venv/bin/python -c "import json;print(' '.join(c['property_id'] for c in json.load(open('MANIFEST.json'))['checks']))")
rc=0
for p in $ids; do
  out=$(VERIF_SEED=${VERIF_SEED:-1} /venv/bin/python check.py $p --tier ${1:-quick} 2>&1); code=$?
  echo "$out" | grep -v "^KNOWN-FINDING" | tail -1 | sed "s/^/[$code] /"
  if [ $code -ne 0 ]; then rc=1; echo "$out" | grep -v "^KNOWN-FINDING" | tail -15; fi
done
exit $rc
